#!/bin/bash
# calibration aid: runs every distinct harness once in the thorough tier with a per-harness budget
# usage: tools/calib_thorough.sh [budget_s] ; prints one line per (property,harness)
cd /verif
b=${1:-600}
python3 - <<'PY' > /tmp/calib_list.txt
import json
c=json.load(open('/verif/harness/checks.json'))
seen=set()
for p,v in c.items():
    for h in v['harnesses']:
        key=(h['func'],json.dumps((h.get('params') or {}).get('thorough'),sort_keys=True))
        if key in seen: continue
        seen.add(key)
        print(p,h['func'])
PY
sort -u /tmp/calib_list.txt | while read p f; do
  s=$(date +%s)
  timeout $((b*3+600)) ./bin/gosym check -prop $p -tier thorough -only $f -budget $b > /tmp/calib_${p}_$f.log 2>&1
  rc=$?
  e=$(date +%s)
  echo "$p $f exit=$rc $((e-s))s $(grep -E '^harness' /tmp/calib_${p}_$f.log | sed 's/.*paths=\([0-9]*\).*wall=\([0-9.]*\)s.*/paths=\1 wall=\2/' | tr '\n' ' ') $(grep -E 'INCOMPLETE|VIOLATION|SPURIOUS|VACUOUS|ERROR' /tmp/calib_${p}_$f.log | cut -c1-120 | head -3 | tr '\n' '|')"
done

#!/bin/bash
# calibration aid: runs the harnesses listed in $2 (lines "<prop> <func>") once in the thorough tier
# with a per-harness budget of $1 seconds; prints one line per harness
cd /verif
b=${1:-400}
list=${2:-/tmp/calib_list2.txt}
while read p f; do
  [ -z "$p" ] && continue
  s=$(date +%s)
  timeout $((b*3+600)) ./bin/gosym check -prop $p -tier thorough -only $f -budget $b > /tmp/calib_${p}_$f.log 2>&1
  rc=$?
  e=$(date +%s)
  echo "$p $f exit=$rc $((e-s))s $(grep -E '^harness' /tmp/calib_${p}_$f.log | sed 's/.*paths=\([0-9]*\).*wall=\([0-9.]*\)s.*/paths=\1 wall=\2/' | tr '\n' ' ') $(grep -E 'INCOMPLETE|VIOLATION|SPURIOUS|VACUOUS|ERROR' /tmp/calib_${p}_$f.log | cut -c1-120 | head -3 | tr '\n' '|')"
done < $list

#!/bin/bash
# re-runs every kept seeded change against the current checks (no re-verification of the seed itself)
cd /verif
for d in seeded/*/; do
  id=$(basename $d); p=${id%%_*}
  [ -f $d/patch.diff ] || continue
  if ! git -C /repo apply --check /verif/$d/patch.diff 2>/dev/null; then echo "$id STALE-PATCH (does not apply to the current tree)"; continue; fi
  git -C /repo apply /verif/$d/patch.diff
  VP_BUDGET=${VP_BUDGET:-300} timeout 1800 ./check $p quick > /tmp/seedreg_$id.log 2>&1
  rc=$?
  git -C /repo checkout -- .
  echo "$id exit=$rc violations=$(grep -c '^VIOLATION' /tmp/seedreg_$id.log) $(grep -E 'violated:' /tmp/seedreg_$id.log | head -2 | sed 's/.*site=//; s/ kind=.*//' | tr '\n' ';')"
done
[ -z "$(git -C /repo status --short)" ] && echo "repo clean" || echo "WARNING repo not clean"

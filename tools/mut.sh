#!/bin/sh
# usage: tools/mut.sh <file-in-repo> <python-regex-old> <new> <prop> [tier] : apply a one-off source mutation, run the check, restore.
f=/repo/$1
cp "$f" /tmp/mut_backup.go
python3 - "$f" "$2" "$3" <<'PY'
import sys,re
f,old,new=sys.argv[1:4]
s=open(f).read()
if old not in s:
    print("MUTATION PATTERN NOT FOUND"); sys.exit(1)
open(f,'w').write(s.replace(old,new,1))
PY
[ $? -eq 0 ] || { cp /tmp/mut_backup.go "$f"; exit 9; }
(cd /repo && GOFLAGS=-mod=mod GOPROXY=off go build ./... ) || { echo "MUTANT DOES NOT BUILD"; cp /tmp/mut_backup.go "$f"; exit 9; }
cd /verif && VP_BUDGET=${VP_BUDGET:-60} timeout ${MUT_TIMEOUT:-900} ./check "$4" "${5:-quick}" 2>&1 | grep -E "VIOLATION|violated|^OK|SPURIOUS|VACUOUS|ERROR|INCOMPLETE|KNOWN" | head -${MUT_LINES:-8}
cp /tmp/mut_backup.go "$f"
git -C /repo status --short

#!/bin/sh
# runs every claimed check (tier $1, default quick) on the current tree and prints one line per property
cd /verif
tier=${1:-quick}
for p in $(python3 -c "import json;print(' '.join(c['property_id'] for c in json.load(open('MANIFEST.json'))['checks']))"); do
  start=$(date +%s)
  ./check $p $tier > /tmp/runall_$p.log 2>&1
  rc=$?
  end=$(date +%s)
  echo "$p exit=$rc $((end-start))s $(grep -cE '^VIOLATION' /tmp/runall_$p.log) violations; $(grep -E 'INCOMPLETE|SPURIOUS|VACUOUS|ERROR|KNOWN-FINDING' /tmp/runall_$p.log | head -3 | tr '\n' ' ')"
done

#!/bin/bash
# usage: tools/seedtest.sh <prop> <k> [tier]  : verify a seeded change and run the property's check against it
p=$1; k=$2; tier=${3:-quick}
src=/tmp/wt_$p/SEED/$k
id=${p}_s$k
export GOFLAGS=-mod=mod GOPROXY=off GOSUMDB=off GOTOOLCHAIN=local
[ -f $src/patch.diff ] || src=/verif/seeded/$id
[ -f $src/patch.diff ] || { echo "no patch for $id"; exit 2; }
pkg=$(grep -m1 '^package ' $src/demo_test.go | awk '{print $2}')
case $pkg in postscript) dir=.;; pfb) dir=pfb;; type1) dir=type1;; names) dir=type1/names;; afm) dir=afm;; psenc) dir=psenc;; *) dir=.;; esac
sv=/tmp/sv_$id
rm -rf $sv; git -C /repo worktree prune; git -C /repo worktree add -q --detach $sv HEAD || exit 2
cd $sv
res_build=fail; res_suite=fail; res_demo_with=unknown; res_demo_without=unknown
if git apply $src/patch.diff 2>/tmp/apply_$id.err; then
  go build ./... && res_build=ok
  go test -vet=off -count=1 ./... >/tmp/suite_$id.log 2>&1 && res_suite=ok
  cp $src/demo_test.go $dir/zz_seed_test.go
  if (cd $dir && timeout 120 go test -vet=off -count=1 -run 'Seed' . >/tmp/demo_with_$id.log 2>&1); then res_demo_with=pass; else res_demo_with=fail; fi
  git checkout -q -- . 
  if (cd $dir && timeout 120 go test -vet=off -count=1 -run 'Seed' . >/tmp/demo_without_$id.log 2>&1); then res_demo_without=pass; else res_demo_without=fail; fi
else
  echo "patch does not apply: $(cat /tmp/apply_$id.err | head -2)"
fi
cd /; git -C /repo worktree remove --force $sv
echo "$id verify: build=$res_build suite=$res_suite demo_with_change=$res_demo_with demo_without=$res_demo_without"
# run the check against the change
git -C /repo apply $src/patch.diff || { echo "apply to /repo failed"; exit 2; }
cd /verif
VP_BUDGET=${VP_BUDGET:-120} timeout 1500 ./check $p $tier > /tmp/check_$id.log 2>&1
rc=$?
git -C /repo checkout -- .
[ -z "$(git -C /repo status --short)" ] || echo "WARNING: /repo not clean"
nv=$(grep -c '^VIOLATION' /tmp/check_$id.log)
echo "$id check($tier): exit=$rc violations=$nv  $(grep -E 'violated:' /tmp/check_$id.log | head -3 | sed 's/.*site=//' | tr '\n' ';')"
mkdir -p /verif/seeded/$id
if [ "$src" != "/verif/seeded/$id" ]; then
cp $src/patch.diff /verif/seeded/$id/patch.diff
cp $src/demo_test.go /verif/seeded/$id/demo_test.go
[ -f $src/notes.md ] && cp $src/notes.md /verif/seeded/$id/notes.md
fi
python3 - "$id" "$p" "$dir" "$res_build" "$res_suite" "$res_demo_with" "$res_demo_without" "$rc" "$nv" "$tier" <<'PY'
import json,sys,re
id,p,d,b,s,dw,dwo,rc,nv,tier=sys.argv[1:]
notes=''
try: notes=open('/verif/seeded/%s/notes.md'%id).read()
except: pass
sites=[l.strip() for l in open('/tmp/check_%s.log'%id) if 'violated:' in l][:4]
meta={"id":id,"property":p,"demo_package_dir":d,
 "verified":{"builds":b=="ok","existing_suite_passes":s=="ok","demo_fails_with_change":dw=="fail","demo_passes_without_change":dwo=="pass"},
 "check_run":{"command":"./check %s %s (VP_BUDGET per harness)"%(p,tier),"exit":int(rc),"violations_reported":int(nv),"violated":sites},
 "detected": int(rc)==1 and int(nv)>0,
 "needs_to_manifest": (re.search(r'(?is)(needs|trigger|manifest)[^\n]*\n(.{0,600})',notes).group(0)[:700] if re.search(r'(?is)(needs|trigger|manifest)',notes) else ''),
 "ran":["git worktree add /tmp/sv_%s; git apply patch.diff; go build ./...; go test -vet=off -count=1 ./...; demo with and without the change"%id,"git -C /repo apply patch.diff; ./check %s %s; git -C /repo checkout -- ."%(p,tier)]}
json.dump(meta,open('/verif/seeded/%s/meta.json'%id,'w'),indent=1)
PY

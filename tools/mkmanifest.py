#!/usr/bin/env python3
"""Regenerates /verif/MANIFEST.json from harness/checks.json and tools/claims.json."""
import json, os
root = os.path.dirname(os.path.dirname(os.path.abspath(__file__)))
checks = json.load(open(os.path.join(root, "harness", "checks.json")))
claims = json.load(open(os.path.join(root, "tools", "claims.json")))
props = [json.loads(l) for l in open(os.path.join(root, "properties.jsonl"))]
man = {
    "version": 1,
    "setup_cmd": "cd /verif/engine && GOFLAGS=-mod=mod GOPROXY=off GOSUMDB=off GOTOOLCHAIN=local go build -o /verif/bin/gosym .",
    "hooks": {
        "guard": "verif",
        "enable": "none needed: harnesses are injected as go/packages overlays (engine) and go test -overlay (native replay); the build tag 'verif' is reserved and unused",
        "baseline_off_cmd": "cd /repo && GOFLAGS=-mod=mod GOPROXY=off GOSUMDB=off go test -vet=off -count=1 ./...",
        "source_commits": [],
        "add_only": True,
    },
    "engines": [{
        "name": "gosym",
        "path": "/verif/engine",
        "serves_properties": sorted(checks.keys()),
        "kind_free_text": "own Go SSA (golang.org/x/tools/go/ssa) -> SMT-LIB2 path-wise symbolic executor with if-conversion; z3 5.1.0 (incremental) with cvc5 1.0.3 / z3 one-shot fall-backs; harnesses are in-package Go files overlaid on /repo's working tree; every solver model is replayed against the native build before it is reported",
    }],
    "checks": [],
    "not_applicable": [],
    "notes": claims.get("notes", ""),
}
for p in props:
    pid = p["id"]
    if pid in checks and pid in claims["claimed"]:
        c = claims["claimed"][pid]
        man["checks"].append({
            "property_id": pid,
            "quick_cmd": "./check %s quick" % pid,
            "thorough_cmd": "./check %s thorough" % pid,
            "evidence_file": "/verif/evidence/%s.json" % pid,
            "replay_cmd_template": "./bin/gosym replay -file {path}",
            "engine": "gosym",
            "level_claimed": {"category": "model_checking", "text": c["text"], "design_ref": c.get("design_ref", "DESIGN.md section 7")},
            "level_note": c["note"],
            "technique": c.get("technique", "bounded symbolic execution of the real Go SSA + SMT (z3 5.1, cvc5), counterexamples replayed natively"),
        })
    else:
        man["not_applicable"].append({"property_id": pid, "reason": claims["not_applicable"].get(pid, "no solver-based check built for this property yet; see DESIGN.md")})
json.dump(man, open(os.path.join(root, "MANIFEST.json"), "w"), indent=1)
print("claimed:", [c["property_id"] for c in man["checks"]])

#!/bin/sh
# runs every claimed check in the thorough tier, one after the other (background use)
cd "$(dirname "$0")/.." || exit 2
for p in $(python3 -c "import json;print(' '.join(c['property_id'] for c in json.load(open('MANIFEST.json'))['checks']))"); do
  start=$(date +%s)
  ./check $p thorough > thorough_$p.log 2>&1
  rc=$?
  end=$(date +%s)
  echo "$p thorough exit=$rc $((end-start))s viol=$(grep -c '^VIOLATION' thorough_$p.log) $(grep -E 'INCOMPLETE|SPURIOUS|VACUOUS|ERROR' thorough_$p.log | head -4 | cut -c1-160 | tr '\n' '|')"
done

package pfb

import "io"

// Reference model of a PFB stream, written from the format description
// (marker 0x80, type 1 text / 2 binary / 3 end, 32-bit little-endian length),
// as a function of the whole byte string.
//
// end: 0 clean end, 1 invalid complete header, 2 truncated header or
// truncated binary segment, 3 truncated text segment (unspecified by the property).
func vpSpecPFB(s []byte) (out []byte, end int) {
	i := 0
	for {
		rest := len(s) - i
		if rest == 0 {
			return out, 0
		}
		if rest >= 2 && s[i] == 0x80 && s[i+1] == 3 {
			return out, 0
		}
		if rest < 6 {
			return out, 2
		}
		if s[i] != 0x80 {
			return out, 1
		}
		tp := s[i+1]
		if tp != 1 && tp != 2 {
			return out, 1
		}
		n := uint32(s[i+2]) + uint32(s[i+3])*256 + uint32(s[i+4])*65536 + uint32(s[i+5])*16777216
		i += 6
		avail := uint32(len(s) - i)
		take := n
		if take > avail {
			take = avail
		}
		seg := s[i : i+int(take)]
		if tp == 1 {
			out = append(out, seg...)
			if n > avail {
				return out, 3
			}
		} else {
			for _, c := range seg {
				out = append(out, vpHexDigit(c/16), vpHexDigit(c%16))
			}
			if n > avail {
				return out, 2
			}
		}
		i += int(take)
	}
}

func vpHexDigit(v byte) byte {
	const digits = "0123456789abcdef"
	return digits[v]
}

// vpReadAll drains r with a fixed caller buffer size, checking the per-call contract.
func vpReadAll(r io.Reader, sz, maxReads int) (got []byte, err error) {
	for k := 0; k < maxReads && err == nil; k++ {
		buf := make([]byte, sz)
		var m int
		m, err = r.Read(buf)
		vpAssert("count-in-range", m >= 0 && m <= sz)
		vpAssert("buffer-filled-unless-stream-ended", m == sz || err != nil)
		if m < 0 || m > sz {
			return
		}
		got = append(got, buf[:m]...)
	}
	return
}

func vpCheckAgainstSpec(got []byte, err error, want []byte, end int) {
	vpAssert("output-not-longer-than-spec", len(got) <= len(want))
	if len(got) <= len(want) {
		same := true
		for i := range got {
			if got[i] != want[i] {
				same = false
			}
		}
		vpAssert("output-is-prefix-of-spec", same)
	}
	if err == nil {
		vpCover("read-budget-exhausted")
		return
	}
	switch end {
	case 0:
		vpCover("clean-end")
		vpAssert("clean-end-delivers-everything", len(got) == len(want))
		vpAssert("clean-end-is-EOF", err == io.EOF)
	case 1:
		vpCover("invalid-header")
		vpAssert("invalid-header-error", err == ErrInvalidPFB)
	case 2:
		vpCover("truncated")
		vpAssert("truncation-is-an-error", err != io.EOF)
	case 3:
		vpCover("truncated-text")
	}
}

// K1a: arbitrary byte strings as the stream, one fixed caller buffer size per run.
func VP_C14_stream() {
	n := vpParam("N", 8)
	vpUnwind(400)
	vpAllocLimit(1 << 16)
	length := vpChoose("len", n+1)
	stream := vpBytes("s", length)
	src := &vpReader{data: stream, faultAt: -1, name: "src"}
	r := Decode(src)
	want, end := vpSpecPFB(stream)
	sizes := []int{1, 2, 3, 16}
	sz := sizes[vpChoose("bufsize", len(sizes))]
	got, err := vpReadAll(r, sz, 2*n+3)
	vpCheckAgainstSpec(got, err, want, end)
}

// vpShape builds a well-formed or truncated stream of concrete structure with symbolic payload.
func vpShape(k int) []byte {
	p := vpBytes("p", 6)
	switch k {
	case 0: // text(2) binary(2) end
		return []byte{0x80, 1, 2, 0, 0, 0, p[0], p[1], 0x80, 2, 2, 0, 0, 0, p[2], p[3], 0x80, 3}
	case 1: // binary(3) text(0) binary(1), no end marker
		return []byte{0x80, 2, 3, 0, 0, 0, p[0], p[1], p[2], 0x80, 1, 0, 0, 0, 0, 0x80, 2, 1, 0, 0, 0, p[3]}
	case 2: // binary(1) end, trailing garbage
		return []byte{0x80, 2, 1, 0, 0, 0, p[0], 0x80, 3, p[1], p[2]}
	case 3: // binary(0) text(1) end with a truncated end header
		return []byte{0x80, 2, 0, 0, 0, 0, 0x80, 1, 1, 0, 0, 0, p[0], 0x80, 3, 0, 0}
	default: // binary segment declared 3, only 2 present
		return []byte{0x80, 1, 1, 0, 0, 0, p[0], 0x80, 2, 3, 0, 0, 0, p[1], p[2]}
	}
}

// K1b: concrete segment structure, symbolic payload, every delivery schedule of the
// underlying reader and every sequence of caller buffer sizes.
func VP_C14_sched() {
	vpUnwind(400)
	vpAllocLimit(1 << 16)
	maxBuf := vpParam("MAXBUF", 3)
	stream := vpShape(vpChoose("shape", vpParam("SHAPES", 5)))
	mode := vpChoose("mode", vpParam("MODES", 4))
	src := &vpReader{data: stream, mode: mode, faultAt: -1, name: "src"}
	if mode == 0 {
		src.eofWithData = true
	}
	if mode == 2 {
		src.splitAt = vpChoose("split", len(stream)+1)
		src.eofWithData = vpChoose("eofWithData", 2) == 1
	}
	r := Decode(src)
	want, end := vpSpecPFB(stream)
	var got []byte
	var err error
	free := vpParam("FREE", 3)
	rest := 0
	for k := 0; k < 2*len(stream)+2 && err == nil; k++ {
		// the first FREE reads use arbitrary sizes, the remaining ones one arbitrary fixed size
		var sz int
		if k < free {
			sz = 1 + vpChoose("buf", maxBuf)
		} else {
			if rest == 0 {
				rest = 1 + vpChoose("bufrest", maxBuf)
			}
			sz = rest
		}
		buf := make([]byte, sz)
		var m int
		m, err = r.Read(buf)
		vpAssert("count-in-range", m >= 0 && m <= sz)
		vpAssert("buffer-filled-unless-stream-ended", m == sz || err != nil)
		if m < 0 || m > sz {
			return
		}
		got = append(got, buf[:m]...)
	}
	vpCheckAgainstSpec(got, err, want, end)
}

// K2: all 2^48 headers in one harness: classification and little-endian length.
func VP_C14_header() {
	hdr := vpBytes("hdr", 6)
	src := &vpReader{data: hdr, faultAt: -1, name: "src"}
	pr := &pfbReader{r: src}
	buf := make([]byte, 1)
	n, err := pr.Read(buf)
	bad := hdr[0] != 0x80 || hdr[1] == 0 || hdr[1] > 3
	vpAssert("invalid-iff-bad-marker-or-type", (err == ErrInvalidPFB) == bad)
	if bad {
		vpAssert("nothing-delivered-on-invalid-header", n == 0)
		vpCover("invalid")
		return
	}
	if hdr[1] == 3 {
		vpAssert("end-marker-is-EOF", err == io.EOF && n == 0)
		vpCover("end-marker")
		return
	}
	length := int64(hdr[2]) + int64(hdr[3])*256 + int64(hdr[4])*65536 + int64(hdr[5])*16777216
	if length == 0 {
		// empty segment followed by end of input: clean end
		vpAssert("empty-segment-then-EOF", err == io.EOF && n == 0)
		vpCover("empty-segment")
		return
	}
	// data missing entirely
	vpAssert("no-data-delivered", n == 0)
	vpAssert("missing-data-not-nil", err != nil)
	if hdr[1] == 2 {
		vpCover("short-binary")
		vpAssert("short-binary-segment-is-an-error", err != io.EOF)
	} else {
		vpCover("short-text")
	}
}

// K3: one Read from an arbitrary reader state (inductive step; covers segment
// lengths and histories of any size).
func VP_C14_step() {
	vpUnwind(100)
	vpAllocLimit(1 << 16)
	avail := vpChoose("avail", vpParam("AVAIL", 4)+1)
	data := vpBytes("d", avail)
	src := &vpReader{data: data, mode: vpChoose("mode", 2), faultAt: -1, name: "src"}
	st := vpChoose("state", 3) // 1, 2, -1
	state := []int{1, 2, -1}[st]
	segLen := vpInt64("len")
	vpAssume(segLen >= 0 && segLen < 1<<32)
	tail := vpByte("tail")
	if state != -1 {
		// representation invariant: a segment in progress has bytes left
		vpAssume(segLen > 0)
	}
	pr := &pfbReader{r: src, state: state, len: segLen, tail: tail}
	sz := 1 + vpChoose("buf", vpParam("MAXBUF", 4))
	buf := make([]byte, sz)
	n, err := pr.Read(buf)
	vpAssert("count-in-range", n >= 0 && n <= sz)

	// independent model of the same step
	var want []byte
	left := segLen
	pos := 0
	pending := false
	var pend byte
	if state == -1 {
		want = append(want, tail)
		if left > 0 {
			state = 2
		} else {
			state = 0
		}
	}
	for len(want) < sz && state != 0 && pos < len(data) && left > 0 {
		c := data[pos]
		pos++
		left--
		if state == 1 {
			want = append(want, c)
		} else {
			want = append(want, vpHexDigit(c>>4))
			if len(want) < sz {
				want = append(want, vpHexDigit(c&15))
			} else {
				pending = true
				pend = vpHexDigit(c & 15)
			}
		}
	}
	// The implementation may stop early only with an error; what it delivered is a prefix of want.
	vpAssert("delivered-at-most-want", n <= len(want) || state == 0)
	if state != 0 || n <= len(want) {
		lim := n
		if lim > len(want) {
			lim = len(want)
		}
		ok := true
		for i := 0; i < lim; i++ {
			if buf[i] != want[i] {
				ok = false
			}
		}
		vpAssert("delivered-bytes-match", ok)
	}
	if err == nil {
		vpAssert("no-error-means-full-buffer", n == sz)
		// successor state
		if pending {
			vpAssert("pending-nibble-state", pr.state == -1 && pr.tail == pend && pr.len == left)
			vpCover("pending-nibble")
		} else if left == 0 {
			vpAssert("segment-finished-state", pr.state == 0)
			vpCover("segment-finished")
		} else {
			vpAssert("segment-continues-state", pr.state == state && pr.len == left)
			vpCover("segment-continues")
		}
	} else {
		vpCover("step-error")
	}
}

// C13 K1c: a read fault at any offset of a PFB stream (including right behind the last byte,
// where the reader would otherwise report end of file) surfaces as that fault.
func VP_C13_pfb_fault() {
	vpUnwind(400)
	vpAllocLimit(1 << 16)
	stream := vpShape(vpChoose("shape", 5))
	at := vpChoose("faultAt", len(stream)+1)
	src := &vpReader{data: stream, mode: vpChoose("mode", 2), faultAt: at, faultOnce: vpChoose("faultOnce", 2) == 1, name: "src"}
	r := Decode(src)
	var err error
	for k := 0; k < 2*len(stream)+3 && err == nil; k++ {
		buf := make([]byte, 1+vpChoose("buf", 2)*6)
		_, err = r.Read(buf)
	}
	if src.faulted {
		vpCover("fault-hit")
		vpAssert("pfb-fault-surfaces", err != nil && err != io.EOF)
	} else {
		vpCover("fault-not-reached")
	}
}

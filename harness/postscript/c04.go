package postscript

import "io"

func vpBytesEqual(a, b []byte) bool {
	if len(a) != len(b) {
		return false
	}
	same := true
	for i := range a {
		if a[i] != b[i] {
			same = false
		}
	}
	return same
}

// K1: the library's own serialisation of any byte string reads back to the identical value.
func VP_C04_string_roundtrip() {
	vpUnwind(400)
	n := vpChoose("len", vpParam("N", 3)+1)
	s := String(vpBytes("s", n))
	text := s.PS()
	sc := newScanner(&vpReader{data: []byte(text), mode: vpChoose("mode", 2), faultAt: -1, name: "r"})
	o, err := sc.ScanToken()
	got, isStr := o.(String)
	vpAssert("reads-back-as-a-string", err == nil && isStr)
	if err == nil && isStr {
		vpAssert("identical-value", vpBytesEqual(got, s))
	}
	_, err2 := sc.ScanToken()
	vpAssert("single-token-then-EOF", err2 == io.EOF)
	vpCover("done")
}

func vpIsRegularRef(b byte) bool {
	if b <= 32 {
		return false
	}
	for _, d := range []byte("()<>[]{}/%") {
		if b == d {
			return false
		}
	}
	return true
}

// K1b: names of regular characters survive Name.PS -> scanner.
func VP_C04_name_roundtrip() {
	vpUnwind(400)
	n := vpChoose("len", vpParam("N", 3)+1)
	raw := vpBytes("n", n)
	for _, b := range raw {
		vpAssume(vpIsRegularRef(b))
	}
	name := Name(raw)
	text := name.PS()
	sc := newScanner(&vpReader{data: []byte(text), mode: 0, faultAt: -1, name: "r"})
	o, err := sc.ScanToken()
	got, isName := o.(Name)
	vpAssert("reads-back-as-a-literal-name", err == nil && isName && got == name)
	_, err2 := sc.ScanToken()
	vpAssert("single-token-then-EOF", err2 == io.EOF)
	vpCover("done")
}

// Reference reader for literal strings (PLRM 3.2.2), written as a function of the whole text
// after the opening parenthesis.  Returns the value, the number of bytes consumed and ok=false
// if the text ends before the string is closed.
func vpRefLiteralString(t []byte) (val []byte, used int, ok bool) {
	level := 1
	i := 0
	for i < len(t) {
		c := t[i]
		i++
		switch {
		case c == '(':
			level++
			val = append(val, c)
		case c == ')':
			level--
			if level == 0 {
				return val, i, true
			}
			val = append(val, c)
		case c == '\r':
			// end-of-line conventions: CR and CR LF are read as LF
			if i < len(t) && t[i] == '\n' {
				i++
			}
			val = append(val, '\n')
		case c == '\\':
			if i >= len(t) {
				return val, i, false
			}
			e := t[i]
			i++
			switch {
			case e == 'n':
				val = append(val, '\n')
			case e == 'r':
				val = append(val, '\r')
			case e == 't':
				val = append(val, '\t')
			case e == 'b':
				val = append(val, 8)
			case e == 'f':
				val = append(val, 12)
			case e == '\n':
				// line continuation
			case e == '\r':
				if i < len(t) && t[i] == '\n' {
					i++
				}
			case e >= '0' && e <= '7':
				v := int(e - '0')
				for k := 0; k < 2 && i < len(t) && t[i] >= '0' && t[i] <= '7'; k++ {
					v = v*8 + int(t[i]-'0')
					i++
				}
				val = append(val, byte(v)) // high-order overflow ignored
			default:
				// includes \( \) \\ and "backslash ignored" for anything else
				val = append(val, e)
			}
		default:
			val = append(val, c)
		}
	}
	return val, i, false
}

// K2: literal strings against the reference, on arbitrary source text.
func VP_C04_literal_string() {
	vpUnwind(400)
	n := vpParam("N", 3)
	body := vpBytes("t", n)
	text := append([]byte{'('}, body...)
	text = append(text, ')', ')', ' ', '7') // enough closers for any nesting reachable in n bytes, then a token
	sc := newScanner(&vpReader{data: text, mode: 0, faultAt: -1, name: "r"})
	o, err := sc.ScanToken()
	want, used, ok := vpRefLiteralString(text[1:])
	if !ok {
		vpCover("unterminated")
		vpAssert("unterminated-string-is-an-error", err != nil)
		return
	}
	vpCover("terminated")
	got, isStr := o.(String)
	vpAssert("string-token", err == nil && isStr)
	if err == nil && isStr {
		vpAssert("value-as-specified", vpBytesEqual(got, want))
		// consumed length: the next byte delivered is the one after the closing parenthesis
		if 1+used < len(text) {
			b, e2 := sc.Next()
			vpAssert("consumed-exactly-the-string", e2 == nil && b == text[1+used])
		}
	}
}

func vpHexVal(b byte) (byte, bool) {
	switch {
	case b >= '0' && b <= '9':
		return b - '0', true
	case b >= 'a' && b <= 'f':
		return b - 'a' + 10, true
	case b >= 'A' && b <= 'F':
		return b - 'A' + 10, true
	}
	return 0, false
}

func vpIsWhite(b byte) bool {
	return b == 0 || b == 9 || b == 10 || b == 12 || b == 13 || b == 32
}

// K3a: hexadecimal strings against the reference (white space skipped, odd digit count padded with 0).
func VP_C04_hex_string() {
	vpUnwind(400)
	n := vpParam("N", 3)
	body := vpBytes("t", n)
	text := append(append([]byte{'<'}, body...), '>', ' ')
	vpAssume(body[0] != '<' && body[0] != '~')
	for _, c := range body {
		// control characters other than the PLRM white-space set are not part of any legal form
		vpAssume(c > 32 || vpIsWhite(c))
	}
	sc := newScanner(&vpReader{data: text, mode: 0, faultAt: -1, name: "r"})
	o, err := sc.ScanToken()
	// reference
	var want []byte
	var hi byte
	have := false
	valid := true
	closed := false
	for _, c := range body {
		if c == '>' {
			closed = true
			break
		}
		if vpIsWhite(c) {
			continue
		}
		v, ok := vpHexVal(c)
		if !ok {
			valid = false
			break
		}
		if have {
			want = append(want, hi*16+v)
			have = false
		} else {
			hi, have = v, true
		}
	}
	_ = closed
	if !valid {
		vpCover("invalid-digit")
		vpAssert("invalid-hex-digit-is-an-error", err != nil)
		return
	}
	if have {
		want = append(want, hi*16)
	}
	vpCover("valid")
	got, isStr := o.(String)
	vpAssert("hex-string-token", err == nil && isStr)
	if err == nil && isStr {
		vpAssert("hex-value-as-specified", vpBytesEqual(got, want))
	}
}

// K3b: ASCII85: a group of 2..5 digits (any legal digit values) decodes to the bytes of
// sum d_i*85^(4-i) (missing digits padded with 84), the z shortcut to four zero bytes, with a
// white-space byte at any position.
func VP_C04_ascii85() {
	vpUnwind(400)
	nd := 2 + vpChoose("digits", 4)
	d := vpBytes("d", nd)
	var text []byte
	text = append(text, '<', '~')
	zfirst := vpChoose("zprefix", 2) == 1
	if zfirst {
		text = append(text, 'z')
	}
	wsAt := vpChoose("wsAt", nd+1)
	var v uint64
	for i := 0; i < 5; i++ {
		digit := uint64(84)
		if i < nd {
			vpAssume(d[i] >= '!' && d[i] <= 'u')
			digit = uint64(d[i] - '!')
			if i == wsAt {
				text = append(text, '\n')
			}
			text = append(text, d[i])
		}
		v = v*85 + digit
	}
	vpAssume(v < 1<<32) // larger groups are not legal ASCII85
	text = append(text, '~', '>')
	sc := newScanner(&vpReader{data: text, mode: 0, faultAt: -1, name: "r"})
	o, err := sc.ScanToken()
	got, isStr := o.(String)
	vpAssert("ascii85-token", err == nil && isStr)
	if err == nil && isStr {
		var want []byte
		if zfirst {
			want = append(want, 0, 0, 0, 0)
		}
		all := []byte{byte(v >> 24), byte(v >> 16), byte(v >> 8), byte(v)}
		want = append(want, all[:nd-1]...)
		vpAssert("ascii85-value", vpBytesEqual(got, want))
	}
	vpCover("done")
}

// K4b: %%Key: value lines and %%+ continuations are collected in order under every end-of-line convention.
func VP_C04_dsc() {
	vpUnwind(1200)
	eols := []string{"\n", "\r", "\r\n"}
	eol := func(tag string) string { return eols[vpChoose(tag, 3)] }
	v := vpBytes("v", 2)
	for _, b := range v {
		vpAssume(b > 32 && b < 127 && b != '%')
	}
	text := "%!PS" + eol("e0") + "%%Title: " + string(v) + " x" + eol("e1") + "%%+ more" + eol("e2") + "%%Pages: 3" + eol("e3") + "/a 1 def" + eol("e4") + "%%NoValue" + eol("e5") + "%%+ cont" + eol("e6")
	intp := NewInterpreter()
	intp.MaxOps = 100
	err := intp.Execute(&vpReader{data: []byte(text), mode: vpChoose("mode", 2), faultAt: -1, name: "r"})
	vpAssert("executes", err == nil)
	want := []Comment{{"Title", string(v) + " x more"}, {"Pages", "3"}, {"NoValue", " cont"}}
	ok := len(intp.DSC) == len(want)
	if ok {
		for i := range want {
			if intp.DSC[i].Key != want[i].Key {
				ok = false
			}
		}
	}
	vpAssert("dsc-keys-in-order", ok)
	if ok {
		vpAssert("dsc-title-with-continuation", intp.DSC[0].Value == want[0].Value)
		vpAssert("dsc-pages", intp.DSC[1].Value == "3")
	}
	_, defined := intp.UserDict["a"]
	vpAssert("program-between-comments-executed", defined)
	vpCover("done")
}

// C10 K1: every name the tokenizer can produce is accepted by Name.PS (no panic) and reads back
// identically, so a font that was read can always be written again.
func VP_C10_names() {
	vpUnwind(400)
	n := vpParam("N", 3)
	body := vpBytes("t", n)
	text := append([]byte{'/'}, body...)
	text = append(text, ' ')
	sc := newScanner(&vpReader{data: text, mode: 0, faultAt: -1, name: "r"})
	o, err := sc.ScanToken()
	name, isName := o.(Name)
	vpAssert("name-token", err == nil && isName)
	if err != nil || !isName {
		return
	}
	ps := name.PS() // must not panic
	sc2 := newScanner(&vpReader{data: []byte(ps + " "), mode: 0, faultAt: -1, name: "r2"})
	o2, err2 := sc2.ScanToken()
	name2, isName2 := o2.(Name)
	vpAssert("name-survives-write-and-read", err2 == nil && isName2 && name2 == name)
	vpCover("done")
}

// vpNumberRef classifies a token by the number syntax of the PLRM (section 3.2.2), written as a
// hand parser: kind 1 = integer (value in i, or in r when it exceeds the integer range), kind 2 =
// real (value in r), kind 0 = not a number (an executable name).
func vpNumberRef(tok []byte) (kind int, i int64, r float64) {
	n := len(tok)
	pos := 0
	isDigit := func(c byte) bool { return c >= '0' && c <= '9' }
	// radix form base#digits (no sign)
	for k := 1; k <= 2 && k < n; k++ {
		if tok[k] == '#' {
			base := 0
			for _, c := range tok[:k] {
				if !isDigit(c) {
					return 0, 0, 0
				}
				base = base*10 + int(c-'0')
			}
			if base < 2 || base > 36 || k+1 >= n {
				return 0, 0, 0
			}
			var v uint64
			for _, c := range tok[k+1:] {
				var d int
				switch {
				case isDigit(c):
					d = int(c - '0')
				case c >= 'a' && c <= 'z':
					d = int(c-'a') + 10
				case c >= 'A' && c <= 'Z':
					d = int(c-'A') + 10
				default:
					return 0, 0, 0
				}
				if d >= base {
					return 0, 0, 0
				}
				v = v*uint64(base) + uint64(d)
			}
			return 1, int64(v), 0
		}
		if !isDigit(tok[k-1]) {
			break
		}
	}
	neg := false
	if pos < n && (tok[pos] == '+' || tok[pos] == '-') {
		neg = tok[pos] == '-'
		pos++
	}
	mant, digits, fracDigits := int64(0), 0, 0
	for pos < n && isDigit(tok[pos]) {
		mant = mant*10 + int64(tok[pos]-'0')
		digits++
		pos++
	}
	isReal := false
	if pos < n && tok[pos] == '.' {
		isReal = true
		pos++
		for pos < n && isDigit(tok[pos]) {
			mant = mant*10 + int64(tok[pos]-'0')
			digits++
			fracDigits++
			pos++
		}
	}
	if digits == 0 {
		return 0, 0, 0
	}
	exp := 0
	if pos < n && (tok[pos] == 'e' || tok[pos] == 'E') {
		isReal = true
		pos++
		eneg := false
		if pos < n && (tok[pos] == '+' || tok[pos] == '-') {
			eneg = tok[pos] == '-'
			pos++
		}
		ed := 0
		for pos < n && isDigit(tok[pos]) {
			exp = exp*10 + int(tok[pos]-'0')
			ed++
			pos++
		}
		if ed == 0 {
			return 0, 0, 0
		}
		if eneg {
			exp = -exp
		}
	}
	if pos != n {
		return 0, 0, 0
	}
	if !isReal {
		if neg {
			mant = -mant
		}
		return 1, mant, 0
	}
	// (small mantissas and exponents only: exact powers of ten, one correctly rounded operation)
	v := float64(mant)
	e := exp - fracDigits
	p := 1.0
	for k := 0; k < e || k < -e; k++ {
		p *= 10
	}
	if e >= 0 {
		v *= p
	} else {
		v /= p
	}
	if neg {
		v = -v
	}
	return 2, 0, v
}

var vpNumberPool = []string{
	// numbers in unusual spellings
	"0", "-0", "+17", "007", "1.", ".5", "-.5", "+1.25", "1e3", "1E3", "2.5e-2", "1e+2", "-3E0", "0.0", "-0.0",
	"8#17", "16#fF", "36#zZ", "2#101", "10#99", "9#80",
	// not numbers: executable names
	"nan", "NaN", "NAN", "inf", "Inf", "+inf", "-Inf", "infinity", "Infinity", "+", "-", ".", "-.", "e5", "1e", "1e+", "1.2.3", "--1", "+-1", "1-",
	"0x10", "0x1p4", "0X1P-2", "0x.8p1", "0x_1p4", "1_0", "1_000", "0b101", "0o17",
	"1#0", "37#1", "8#9", "16#", "#5", "8#-1", "16#fg", "1e5x", "12a", "$1",
}

// C04 K7: number syntax.  A token between two others, with every separator choice: signed decimal
// integers and reals with a decimal point have symbolic digits; radix numbers, exponent forms and
// the look-alikes that are NOT numbers (and so are executable names) come from a pool of
// spellings.  The scanner's classification and value are compared with the PLRM grammar.
func VP_C04_numbers() {
	vpUnwind(600)
	var tok []byte
	digit := func(tag string) byte {
		d := vpByte(tag)
		vpAssume(d >= '0' && d <= '9')
		return d
	}
	sign := func() {
		switch vpChoose("sign", 3) {
		case 1:
			tok = append(tok, '+')
		case 2:
			tok = append(tok, '-')
		}
	}
	switch vpChoose("form", 3) {
	case 0:
		sign()
		nd := 1 + vpChoose("digits", vpParam("DIGITS", 3))
		for k := 0; k < nd; k++ {
			tok = append(tok, digit("d"+string(rune('0'+k))))
		}
	case 1:
		sign()
		ni := vpChoose("intdigits", 3)
		for k := 0; k < ni; k++ {
			tok = append(tok, digit("i"+string(rune('0'+k))))
		}
		tok = append(tok, '.')
		nf := vpChoose("fracdigits", 3)
		if ni == 0 && nf == 0 {
			nf = 1
		}
		for k := 0; k < nf; k++ {
			tok = append(tok, digit("f"+string(rune('0'+k))))
		}
	default:
		tok = []byte(vpNumberPool[vpChoose("spelling", len(vpNumberPool))])
	}
	seps := []string{" ", "\t", "\r\n", "\f", "\x00", "%c\n", "\n"}
	text := []byte("7")
	text = append(text, seps[vpChoose("sep1", len(seps))]...)
	text = append(text, tok...)
	after := vpChoose("sep2", len(seps)+1)
	if after < len(seps) {
		text = append(text, seps[after]...)
	}
	text = append(text, "/end "...) // a delimiter may follow the token directly
	// (the reader may hand over its last bytes together with io.EOF)
	sc := newScanner(&vpReader{data: text, mode: 0, faultAt: -1, eofWithData: vpChoose("eof-with-data", 2) == 1, name: "r"})
	o1, e1 := sc.ScanToken()
	o2, e2 := sc.ScanToken()
	o3, e3 := sc.ScanToken()
	vpAssert("neighbours-unaffected", e1 == nil && e3 == nil && o1 == Integer(7) && o3 == Name("end"))
	vpAssert("token-read", e2 == nil)
	if e2 != nil {
		return
	}
	kind, wi, wr := vpNumberRef(tok)
	switch kind {
	case 1:
		got, ok := o2.(Integer)
		vpAssert("integer-syntax-gives-integer", ok && int64(got) == wi)
		vpCover("integer")
	case 2:
		got, ok := o2.(Real)
		vpAssert("real-syntax-gives-real", ok && float64(got) == wr) // (the sign of a zero is not compared)
		vpCover("real")
	default:
		got, ok := o2.(Operator)
		vpAssert("other-tokens-are-executable-names", ok && string(got) == string(tok))
		vpCover("name")
	}
}

package postscript

import "io"

func vpBytesEqual(a, b []byte) bool {
	if len(a) != len(b) {
		return false
	}
	same := true
	for i := range a {
		if a[i] != b[i] {
			same = false
		}
	}
	return same
}

// K1: the library's own serialisation of any byte string reads back to the identical value.
func VP_C04_string_roundtrip() {
	vpUnwind(400)
	n := vpChoose("len", vpParam("N", 3)+1)
	s := String(vpBytes("s", n))
	text := s.PS()
	sc := newScanner(&vpReader{data: []byte(text), mode: vpChoose("mode", 2), faultAt: -1, name: "r"})
	o, err := sc.ScanToken()
	got, isStr := o.(String)
	vpAssert("reads-back-as-a-string", err == nil && isStr)
	if err == nil && isStr {
		vpAssert("identical-value", vpBytesEqual(got, s))
	}
	_, err2 := sc.ScanToken()
	vpAssert("single-token-then-EOF", err2 == io.EOF)
	vpCover("done")
}

func vpIsRegularRef(b byte) bool {
	if b <= 32 {
		return false
	}
	for _, d := range []byte("()<>[]{}/%") {
		if b == d {
			return false
		}
	}
	return true
}

// K1b: names of regular characters survive Name.PS -> scanner.
func VP_C04_name_roundtrip() {
	vpUnwind(400)
	n := vpChoose("len", vpParam("N", 3)+1)
	raw := vpBytes("n", n)
	for _, b := range raw {
		vpAssume(vpIsRegularRef(b))
	}
	name := Name(raw)
	text := name.PS()
	sc := newScanner(&vpReader{data: []byte(text), mode: 0, faultAt: -1, name: "r"})
	o, err := sc.ScanToken()
	got, isName := o.(Name)
	vpAssert("reads-back-as-a-literal-name", err == nil && isName && got == name)
	_, err2 := sc.ScanToken()
	vpAssert("single-token-then-EOF", err2 == io.EOF)
	vpCover("done")
}

// Reference reader for literal strings (PLRM 3.2.2), written as a function of the whole text
// after the opening parenthesis.  Returns the value, the number of bytes consumed and ok=false
// if the text ends before the string is closed.
func vpRefLiteralString(t []byte) (val []byte, used int, ok bool) {
	level := 1
	i := 0
	for i < len(t) {
		c := t[i]
		i++
		switch {
		case c == '(':
			level++
			val = append(val, c)
		case c == ')':
			level--
			if level == 0 {
				return val, i, true
			}
			val = append(val, c)
		case c == '\r':
			// end-of-line conventions: CR and CR LF are read as LF
			if i < len(t) && t[i] == '\n' {
				i++
			}
			val = append(val, '\n')
		case c == '\\':
			if i >= len(t) {
				return val, i, false
			}
			e := t[i]
			i++
			switch {
			case e == 'n':
				val = append(val, '\n')
			case e == 'r':
				val = append(val, '\r')
			case e == 't':
				val = append(val, '\t')
			case e == 'b':
				val = append(val, 8)
			case e == 'f':
				val = append(val, 12)
			case e == '\n':
				// line continuation
			case e == '\r':
				if i < len(t) && t[i] == '\n' {
					i++
				}
			case e >= '0' && e <= '7':
				v := int(e - '0')
				for k := 0; k < 2 && i < len(t) && t[i] >= '0' && t[i] <= '7'; k++ {
					v = v*8 + int(t[i]-'0')
					i++
				}
				val = append(val, byte(v)) // high-order overflow ignored
			default:
				// includes \( \) \\ and "backslash ignored" for anything else
				val = append(val, e)
			}
		default:
			val = append(val, c)
		}
	}
	return val, i, false
}

// K2: literal strings against the reference, on arbitrary source text.
func VP_C04_literal_string() {
	vpUnwind(400)
	n := vpParam("N", 3)
	body := vpBytes("t", n)
	text := append([]byte{'('}, body...)
	text = append(text, ')', ')', ' ', '7') // enough closers for any nesting reachable in n bytes, then a token
	sc := newScanner(&vpReader{data: text, mode: 0, faultAt: -1, name: "r"})
	o, err := sc.ScanToken()
	want, used, ok := vpRefLiteralString(text[1:])
	if !ok {
		vpCover("unterminated")
		vpAssert("unterminated-string-is-an-error", err != nil)
		return
	}
	vpCover("terminated")
	got, isStr := o.(String)
	vpAssert("string-token", err == nil && isStr)
	if err == nil && isStr {
		vpAssert("value-as-specified", vpBytesEqual(got, want))
		// consumed length: the next byte delivered is the one after the closing parenthesis
		if 1+used < len(text) {
			b, e2 := sc.Next()
			vpAssert("consumed-exactly-the-string", e2 == nil && b == text[1+used])
		}
	}
}

func vpHexVal(b byte) (byte, bool) {
	switch {
	case b >= '0' && b <= '9':
		return b - '0', true
	case b >= 'a' && b <= 'f':
		return b - 'a' + 10, true
	case b >= 'A' && b <= 'F':
		return b - 'A' + 10, true
	}
	return 0, false
}

func vpIsWhite(b byte) bool {
	return b == 0 || b == 9 || b == 10 || b == 12 || b == 13 || b == 32
}

// K3a: hexadecimal strings against the reference (white space skipped, odd digit count padded with 0).
func VP_C04_hex_string() {
	vpUnwind(400)
	n := vpParam("N", 3)
	body := vpBytes("t", n)
	text := append(append([]byte{'<'}, body...), '>', ' ')
	vpAssume(body[0] != '<' && body[0] != '~')
	for _, c := range body {
		// control characters other than the PLRM white-space set are not part of any legal form
		vpAssume(c > 32 || vpIsWhite(c))
	}
	sc := newScanner(&vpReader{data: text, mode: 0, faultAt: -1, name: "r"})
	o, err := sc.ScanToken()
	// reference
	var want []byte
	var hi byte
	have := false
	valid := true
	closed := false
	for _, c := range body {
		if c == '>' {
			closed = true
			break
		}
		if vpIsWhite(c) {
			continue
		}
		v, ok := vpHexVal(c)
		if !ok {
			valid = false
			break
		}
		if have {
			want = append(want, hi*16+v)
			have = false
		} else {
			hi, have = v, true
		}
	}
	_ = closed
	if !valid {
		vpCover("invalid-digit")
		vpAssert("invalid-hex-digit-is-an-error", err != nil)
		return
	}
	if have {
		want = append(want, hi*16)
	}
	vpCover("valid")
	got, isStr := o.(String)
	vpAssert("hex-string-token", err == nil && isStr)
	if err == nil && isStr {
		vpAssert("hex-value-as-specified", vpBytesEqual(got, want))
	}
}

// K3b: ASCII85: a group of 2..5 digits (any legal digit values) decodes to the bytes of
// sum d_i*85^(4-i) (missing digits padded with 84), the z shortcut to four zero bytes, with a
// white-space byte at any position.
func VP_C04_ascii85() {
	vpUnwind(400)
	nd := 2 + vpChoose("digits", 4)
	d := vpBytes("d", nd)
	var text []byte
	text = append(text, '<', '~')
	zfirst := vpChoose("zprefix", 2) == 1
	if zfirst {
		text = append(text, 'z')
	}
	wsAt := vpChoose("wsAt", nd+1)
	var v uint64
	for i := 0; i < 5; i++ {
		digit := uint64(84)
		if i < nd {
			vpAssume(d[i] >= '!' && d[i] <= 'u')
			digit = uint64(d[i] - '!')
			if i == wsAt {
				text = append(text, '\n')
			}
			text = append(text, d[i])
		}
		v = v*85 + digit
	}
	vpAssume(v < 1<<32) // larger groups are not legal ASCII85
	text = append(text, '~', '>')
	sc := newScanner(&vpReader{data: text, mode: 0, faultAt: -1, name: "r"})
	o, err := sc.ScanToken()
	got, isStr := o.(String)
	vpAssert("ascii85-token", err == nil && isStr)
	if err == nil && isStr {
		var want []byte
		if zfirst {
			want = append(want, 0, 0, 0, 0)
		}
		all := []byte{byte(v >> 24), byte(v >> 16), byte(v >> 8), byte(v)}
		want = append(want, all[:nd-1]...)
		vpAssert("ascii85-value", vpBytesEqual(got, want))
	}
	vpCover("done")
}

// K4b: %%Key: value lines and %%+ continuations are collected in order under every end-of-line convention.
func VP_C04_dsc() {
	vpUnwind(1200)
	eols := []string{"\n", "\r", "\r\n"}
	eol := func(tag string) string { return eols[vpChoose(tag, 3)] }
	v := vpBytes("v", 2)
	for _, b := range v {
		vpAssume(b > 32 && b < 127 && b != '%')
	}
	text := "%!PS" + eol("e0") + "%%Title: " + string(v) + " x" + eol("e1") + "%%+ more" + eol("e2") + "%%Pages: 3" + eol("e3") + "/a 1 def" + eol("e4") + "%%NoValue" + eol("e5") + "%%+ cont" + eol("e6")
	intp := NewInterpreter()
	intp.MaxOps = 100
	err := intp.Execute(&vpReader{data: []byte(text), mode: vpChoose("mode", 2), faultAt: -1, name: "r"})
	vpAssert("executes", err == nil)
	want := []Comment{{"Title", string(v) + " x more"}, {"Pages", "3"}, {"NoValue", " cont"}}
	ok := len(intp.DSC) == len(want)
	if ok {
		for i := range want {
			if intp.DSC[i].Key != want[i].Key {
				ok = false
			}
		}
	}
	vpAssert("dsc-keys-in-order", ok)
	if ok {
		vpAssert("dsc-title-with-continuation", intp.DSC[0].Value == want[0].Value)
		vpAssert("dsc-pages", intp.DSC[1].Value == "3")
	}
	_, defined := intp.UserDict["a"]
	vpAssert("program-between-comments-executed", defined)
	vpCover("done")
}

// C10 K1: every name the tokenizer can produce is accepted by Name.PS (no panic) and reads back
// identically, so a font that was read can always be written again.
func VP_C10_names() {
	vpUnwind(400)
	n := vpParam("N", 3)
	body := vpBytes("t", n)
	text := append([]byte{'/'}, body...)
	text = append(text, ' ')
	sc := newScanner(&vpReader{data: text, mode: 0, faultAt: -1, name: "r"})
	o, err := sc.ScanToken()
	name, isName := o.(Name)
	vpAssert("name-token", err == nil && isName)
	if err != nil || !isName {
		return
	}
	ps := name.PS() // must not panic
	sc2 := newScanner(&vpReader{data: []byte(ps + " "), mode: 0, faultAt: -1, name: "r2"})
	o2, err2 := sc2.ScanToken()
	name2, isName2 := o2.(Name)
	vpAssert("name-survives-write-and-read", err2 == nil && isName2 && name2 == name)
	vpCover("done")
}

package postscript

import "math"

// ---------- helpers ----------

func vpRunOp(intp *Interpreter, name string) error {
	return intp.executeOne(Operator(name), false)
}

// vpStackIs compares the operand stack with the expected objects (composites by identity).
func vpStackIs(intp *Interpreter, want ...Object) bool {
	if len(intp.Stack) != len(want) {
		return false
	}
	for i := range want {
		if !vpSameObj(intp.Stack[i], want[i]) {
			return false
		}
	}
	return true
}

// vpWrap runs body through one of the ways a procedure can be executed and returns the
// objects that the wrapper itself leaves below/between the body's results.
// kinds: 0 exec, 1 if, 2 ifelse(true), 3 ifelse(false), 4 for (one trip), 5 repeat (one trip),
// 6 forall over a one-element array, 7 executable name, 8 loop (body followed by exit)
const vpWrapKinds = 9

func vpWrap(intp *Interpreter, kind int, body Procedure) (prefix []Object, err error) {
	other := Procedure{Integer(99)}
	switch kind {
	case 0:
		intp.Stack = append(intp.Stack, body)
		return nil, vpRunOp(intp, "exec")
	case 1:
		intp.Stack = append(intp.Stack, Boolean(true), body)
		return nil, vpRunOp(intp, "if")
	case 2:
		intp.Stack = append(intp.Stack, Boolean(true), body, other)
		return nil, vpRunOp(intp, "ifelse")
	case 3:
		intp.Stack = append(intp.Stack, Boolean(false), other, body)
		return nil, vpRunOp(intp, "ifelse")
	case 4:
		intp.Stack = append(intp.Stack, Integer(5), Integer(1), Integer(5), body)
		return []Object{Integer(5)}, vpRunOp(intp, "for")
	case 5:
		intp.Stack = append(intp.Stack, Integer(1), body)
		return nil, vpRunOp(intp, "repeat")
	case 6:
		intp.Stack = append(intp.Stack, Array{Integer(6)}, body)
		return []Object{Integer(6)}, vpRunOp(intp, "forall")
	case 7:
		intp.UserDict["vpproc"] = body
		return nil, vpRunOp(intp, "vpproc")
	default:
		// loop: the body must end the loop itself; append an exit
		b2 := append(append(Procedure{}, body...), Operator("exit"))
		intp.Stack = append(intp.Stack, b2)
		return nil, vpRunOp(intp, "loop")
	}
}

// ---------- K2: a procedure literal inside a running procedure is pushed, wherever it stands ----------

func VP_C03_literal_position() {
	intp := NewInterpreter()
	intp.MaxOps = 200
	inner := Procedure{Integer(1), Integer(2)}
	n := 1 + vpChoose("bodylen", 3)
	p := vpChoose("pos", n)
	body := make(Procedure, n)
	var want []Object
	for i := range body {
		if i == p {
			body[i] = inner
		} else {
			body[i] = Integer(70 + i)
		}
	}
	kind := vpChoose("wrapper", vpWrapKinds)
	prefix, err := vpWrap(intp, kind, body)
	want = append(want, prefix...)
	for i := range body {
		want = append(want, body[i])
	}
	vpAssert("no-error", err == nil)
	vpAssert("inner-literal-pushed-not-run", vpStackIs(intp, want...))
	vpCover("done")
}

// ---------- K3: loop operators run the prescribed number of times with the prescribed operands ----------

var vpIncPool = []Integer{1, -1, 2, -2, 3, 1 << 62, -(1 << 62), math.MaxInt64, math.MinInt64, 0}

func VP_C03_for_count() {
	intp := NewInterpreter()
	intp.MaxOps = 40
	vpUnwind(60)
	initial := Integer(vpInt64("initial"))
	limit := Integer(vpInt64("limit"))
	inc := vpIncPool[vpChoose("inc", vpParam("INCS", len(vpIncPool)))]
	// reference: control values initial, initial+inc, ... while not beyond limit (exact arithmetic)
	var want []Object
	v := initial
	overflowed := false
	for k := 0; k < 4; k++ {
		if overflowed || (inc > 0 && v > limit) || (inc < 0 && v < limit) {
			break
		}
		if inc == 0 {
			break
		}
		want = append(want, v)
		if vpAddOverflows(v, inc) {
			overflowed = true // the exact next value lies beyond every representable limit
		} else {
			v += inc
		}
	}
	if inc == 0 {
		// PLRM leaves increment 0 to loop for ever; with a budget the interpreter must stop
		intp.Stack = append(intp.Stack, initial, inc, limit, Procedure{})
		err := vpRunOp(intp, "for")
		vpCover("zero-increment")
		vpAssert("zero-increment-cut-by-budget-or-no-trip", err == ErrExecutionLimitExceeded || (err == nil && len(intp.Stack) == 0))
		return
	}
	vpAssume(len(want) <= 3)
	intp.Stack = append(intp.Stack, initial, inc, limit, Procedure{})
	err := vpRunOp(intp, "for")
	vpCover("ran")
	vpAssert("for-no-error", err == nil)
	vpAssert("for-control-values", vpStackIs(intp, want...))
}

func VP_C03_repeat_forall() {
	intp := NewInterpreter()
	intp.MaxOps = 60
	vpUnwind(30)
	switch vpChoose("which", 4) {
	case 0: // repeat
		n := Integer(vpInt64("n"))
		vpAssume(n <= 3)
		intp.Stack = append(intp.Stack, n, Procedure{Integer(9)})
		err := vpRunOp(intp, "repeat")
		if n < 0 {
			pe, ok := err.(*postScriptError)
			vpAssert("repeat-negative-rangecheck", ok && pe.tp == eRangecheck)
			vpCover("repeat-negative")
			return
		}
		var want []Object
		for i := Integer(0); i < n; i++ {
			want = append(want, Integer(9))
		}
		vpAssert("repeat-count", err == nil && vpStackIs(intp, want...))
		vpCover("repeat")
	case 1: // forall over an array
		k := vpChoose("alen", 4)
		a := make(Array, k)
		var want []Object
		for i := range a {
			a[i] = Integer(vpInt64("e" + vpDigit(i)))
			want = append(want, a[i], Integer(0))
		}
		intp.Stack = append(intp.Stack, a, Procedure{Integer(0)})
		err := vpRunOp(intp, "forall")
		vpAssert("forall-array", err == nil && vpStackIs(intp, want...))
		vpCover("forall-array")
	case 2: // forall over a string pushes the character codes
		s := String(vpBytes("s", vpChoose("slen", 4)))
		var want []Object
		for _, c := range s {
			want = append(want, Integer(c))
		}
		intp.Stack = append(intp.Stack, s, Procedure{})
		err := vpRunOp(intp, "forall")
		vpAssert("forall-string", err == nil && vpStackIs(intp, want...))
		vpCover("forall-string")
	default: // forall over a dictionary: key/value pairs in any order
		vpMapOrder(true)
		d := Dict{"k1": Integer(1), "k2": Integer(2), "k3": Integer(3)}
		intp.Stack = append(intp.Stack, d, Procedure{})
		err := vpRunOp(intp, "forall")
		ok := err == nil && len(intp.Stack) == 6
		seen := 0
		if ok {
			for i := 0; i < 6; i += 2 {
				k, isName := intp.Stack[i].(Name)
				v, isInt := intp.Stack[i+1].(Integer)
				if !isName || !isInt || d[k] != v {
					ok = false
				} else {
					seen += int(v)
				}
			}
		}
		vpAssert("forall-dict", ok && seen == 6)
		vpCover("forall-dict")
	}
}

// ---------- K4: exit leaves exactly the innermost loop; stop ends the run without error ----------

// vpLoop pushes the operands of loop kind k around body and returns the operator name and the
// values the loop pushes itself per trip.
func vpLoop(intp *Interpreter, k int, body Procedure) (string, []Object) {
	switch k {
	case 0:
		intp.Stack = append(intp.Stack, Integer(1), Integer(1), Integer(3), body)
		return "for", []Object{Integer(1)}
	case 1:
		intp.Stack = append(intp.Stack, Integer(3), body)
		return "repeat", nil
	case 2:
		intp.Stack = append(intp.Stack, body)
		return "loop", nil
	default:
		intp.Stack = append(intp.Stack, Array{Integer(1), Integer(2), Integer(3)}, body)
		return "forall", []Object{Integer(1)}
	}
}

func VP_C03_exit_scope() {
	intp := NewInterpreter()
	intp.MaxOps = 300
	vpUnwind(40)
	inner := vpChoose("inner", 4)
	switch vpChoose("shape", 3) {
	case 0: // exit in a single loop: first trip pushes 7 and leaves
		op, pre := vpLoop(intp, inner, Procedure{Integer(7), Operator("exit"), Integer(8)})
		err := vpRunOp(intp, op)
		want := append(append([]Object{}, pre...), Integer(7))
		vpAssert("exit-ends-the-loop", err == nil && vpStackIs(intp, want...))
		vpCover("single")
	case 1: // nested: the inner loop exits, the outer one (repeat 2) continues
		outer := Procedure{}
		// outer body: <inner loop operands> innerop 5
		innerBody := Procedure{Integer(7), Operator("exit")}
		tmp := NewInterpreter()
		op, pre := vpLoop(tmp, inner, innerBody)
		outer = append(outer, tmp.Stack...)
		outer = append(outer, Operator(op), Integer(5))
		// composite operands inside a body are literals: procedures are pushed, which is what the inner operator needs
		intp.Stack = append(intp.Stack, Integer(2), outer)
		err := vpRunOp(intp, "repeat")
		one := append(append([]Object{}, pre...), Integer(7), Integer(5))
		want := append(append([]Object{}, one...), one...)
		vpAssert("exit-leaves-only-the-innermost-loop", err == nil && vpStackIs(intp, want...))
		vpCover("nested")
	default: // stop inside a loop ends everything, without error at top level
		op, _ := vpLoop(intp, inner, Procedure{Integer(7), Operator("stop"), Integer(8)})
		intp.UserDict["vpmain"] = Procedure{}
		err := vpRunOp(intp, op)
		vpAssert("stop-propagates-out-of-the-loop", err == errStop)
		vpCover("stop")
	}
}

// exit leaves no residue: a loop that is left through a non-final exit can be run any number of
// times (the count is symbolic, up to 150 - beyond the interpreter's nesting limit of 100, so a
// per-exit leak of nesting depth shows), also when the loops sit in a named procedure.
func VP_C03_many_exits() {
	intp := NewInterpreter()
	intp.MaxOps = 100000
	vpUnwind(400)
	inner := vpChoose("inner", 4)
	n := vpInt("count")
	vpAssume(n >= 0 && n <= int(vpParam("MAXCOUNT", 150)))
	innerBody := Procedure{Integer(7), Operator("exit"), Integer(8)}
	tmp := NewInterpreter()
	op, pre := vpLoop(tmp, inner, innerBody)
	outer := Procedure{}
	outer = append(outer, tmp.Stack...)
	outer = append(outer, Operator(op), Operator("pop"))
	for range pre {
		outer = append(outer, Operator("pop"))
	}
	if vpChoose("named", 2) == 1 {
		intp.UserDict["vpbody"] = outer
		outer = Procedure{Operator("vpbody")}
	}
	intp.Stack = append(intp.Stack, Integer(n), outer)
	err := vpRunOp(intp, "repeat")
	vpAssert("loops-left-by-exit-can-be-repeated", err == nil && len(intp.Stack) == 0)
	vpCover("done")
}

func VP_C03_toplevel() {
	// through the public entry point: stray exit is invalidexit, stop is not an error
	intp := NewInterpreter()
	intp.MaxOps = 100
	which := vpChoose("which", 3)
	var text string
	switch which {
	case 0:
		text = "1 exit 2"
	case 1:
		text = "1 stop 2"
	default:
		text = "1 { 3 stop } loop 2"
	}
	err := intp.ExecuteString(text)
	if which == 0 {
		pe, ok := err.(*postScriptError)
		vpAssert("exit-outside-loop-is-invalidexit", ok && pe.tp == eInvalidexit)
		vpCover("invalidexit")
	} else {
		vpAssert("stop-ends-the-program-without-error", err == nil)
		vpCover("stop")
	}
}

// ---------- K5: name lookup and bind ----------

func VP_C03_lookup() {
	intp := NewInterpreter()
	intp.MaxOps = 100
	depth := 2 + vpChoose("extra", vpParam("EXTRA", 3))
	for len(intp.DictStack) < depth {
		intp.DictStack = append(intp.DictStack, Dict{})
	}
	// define /x at a symbolic subset of the levels 1..depth-1 with distinct values
	topLevel := -1
	for lvl := 1; lvl < depth; lvl++ {
		if vpChoose("def"+vpDigit(lvl), 2) == 1 {
			intp.DictStack[lvl]["x"] = Integer(100 + lvl)
			topLevel = lvl
		}
	}
	switch vpChoose("via", 3) {
	case 0: // executable name
		err := vpRunOp(intp, "x")
		if topLevel < 0 {
			pe, ok := err.(*postScriptError)
			vpAssert("undefined-name", ok && pe.tp == eUndefined)
		} else {
			vpAssert("name-resolves-topmost", err == nil && vpStackIs(intp, Integer(100+topLevel)))
		}
	case 1:
		intp.Stack = append(intp.Stack, Name("x"))
		err := vpRunOp(intp, "load")
		if topLevel < 0 {
			pe, ok := err.(*postScriptError)
			vpAssert("load-undefined", ok && pe.tp == eUndefined)
		} else {
			vpAssert("load-topmost", err == nil && vpStackIs(intp, Integer(100+topLevel)))
		}
	default:
		intp.Stack = append(intp.Stack, Name("x"))
		err := vpRunOp(intp, "where")
		if topLevel < 0 {
			vpAssert("where-false", err == nil && vpStackIs(intp, Boolean(false)))
		} else {
			vpAssert("where-topmost", err == nil && vpStackIs(intp, intp.DictStack[topLevel], Boolean(true)))
		}
	}
	vpCover("done")
}

func VP_C03_bind() {
	intp := NewInterpreter()
	intp.MaxOps = 200
	nested := Procedure{Operator("add"), Name("add"), Operator("x")}
	proc := Procedure{Integer(1), Integer(2), Operator("add"), nested, Operator("undefinedname")}
	if vpChoose("selfref", 2) == 1 {
		proc = append(proc, nil)
		proc[len(proc)-1] = proc // a procedure stored in itself
	}
	intp.UserDict["x"] = Integer(3)
	intp.Stack = append(intp.Stack, proc)
	err := vpRunOp(intp, "bind")
	vpAssert("bind-ok", err == nil && len(intp.Stack) == 1)
	_, isB := proc[2].(builtin)
	vpAssert("operator-name-replaced-by-its-value", isB)
	_, isB2 := nested[0].(builtin)
	vpAssert("nested-procedure-bound-too", isB2)
	lit, isName := nested[1].(Name)
	vpAssert("literal-name-left-alone", isName && lit == "add")
	_, stillOp := nested[2].(Operator)
	vpAssert("non-operator-name-left-alone", stillOp)
	_, stillOp2 := proc[4].(Operator)
	vpAssert("undefined-name-left-alone", stillOp2)
	// names are looked up through the dictionary stack at bind time: a shadowed operator name is
	// not an operator any more, an alias of an operator is
	i2 := NewInterpreter()
	i2.MaxOps = 200
	i2.UserDict["sub"] = Procedure{Operator("pop")}
	i2.UserDict["plus"] = i2.SystemDict["add"]
	p2 := Procedure{Integer(5), Integer(3), Operator("sub"), Integer(1), Operator("plus")}
	i2.Stack = append(i2.Stack, p2)
	e2 := vpRunOp(i2, "bind")
	_, shadowBound := p2[2].(builtin)
	_, aliasBound := p2[4].(builtin)
	vpAssert("shadowed-operator-name-not-bound", e2 == nil && !shadowBound)
	vpAssert("alias-of-operator-bound", aliasBound)
	i2.Stack = i2.Stack[:0]
	e3 := i2.executeOne(p2, true)
	vpAssert("bound-procedure-uses-the-definitions-of-bind-time", e3 == nil && vpStackIs(i2, Integer(6)))
	// later redefinition does not affect the bound procedure
	intp.UserDict["add"] = Procedure{Operator("pop"), Operator("pop"), Integer(0)}
	intp.Stack = intp.Stack[:0]
	err = intp.executeOne(Procedure{proc[0], proc[1], proc[2]}, true)
	vpAssert("bound-operator-survives-redefinition", err == nil && vpStackIs(intp, Integer(3)))
	vpCover("done")
}

package postscript

import "io"

// K1: a failing reader always surfaces as that failure: never nil, never a clean end of file.
func VP_C13_reader_fault() {
	vpUnwind(1200)
	text := vpText()
	f := vpChoose("faultFromEnd", vpParam("FAULTS", 6))
	at := len(text) - f
	if at < 0 {
		at = 0
	}
	r := &vpReader{data: text, mode: vpChoose("mode", 2), faultAt: at, faultOnce: vpChoose("faultOnce", 2) == 1, name: "r"}
	res := vpScanAll(r, 10)
	vpAssert("fault-surfaces", res.err == errVPFault || vpErrClass(res.err) == 3)
	vpAssert("never-clean-eof-or-nil", res.err != nil && res.err != io.EOF)
	vpCover("faulted")
}

var vpFaultPrograms = []string{
	"/a 1 def (str) <4142> /b exch def 3 string currentfile exch readstring xyz pop pop",
	"/p { 1 2 add } def p p % comment\n%%Key: value\n[ 1 2 ] length",
}

// K1b: the same through Execute (interpreter level) on concrete programs, fault at every offset.
func VP_C13_execute_fault() {
	vpUnwind(2000)
	text := []byte(vpFaultPrograms[vpChoose("program", len(vpFaultPrograms))])
	at := vpChoose("faultAt", len(text)+1)
	r := &vpReader{data: text, mode: vpChoose("mode", 2), faultAt: at, faultOnce: vpChoose("faultOnce", 2) == 1, name: "r"}
	intp := NewInterpreter()
	intp.MaxOps = 500
	err := intp.Execute(r)
	vpAssert("execute-reports-the-fault", err != nil && err != io.EOF)
	vpCover("faulted")
}

const vpMiniFont = "/F 3 dict dup begin /FontType 1 def /FontName /F def /CharStrings 2 dict dup begin /a <01> def /b <02> def end def end def /F F definefont pop"

// K3: a program cut off at any offset either fails or has run completely.
func VP_C13_truncation() {
	vpUnwind(2000)
	text := []byte(vpMiniFont)
	cut := vpChoose("cut", len(text)+1)
	intp := NewInterpreter()
	intp.MaxOps = 500
	err := intp.Execute(&vpReader{data: text[:cut], mode: 0, faultAt: -1, name: "r"})
	f, defined := intp.FontDirectory["F"]
	if err == nil && defined {
		d, ok := f.(Dict)
		complete := ok && len(d) == 3
		if complete {
			cs, ok2 := d["CharStrings"].(Dict)
			complete = ok2 && len(cs) == 2
		}
		vpAssert("no-silently-incomplete-font", complete)
		vpCover("complete")
	} else {
		vpCover("rejected-or-undefined")
	}
}

package postscript

// vpReachable lists the mutable containers reachable from an interpreter instance.
func vpReachable(intp *Interpreter) []Object {
	return []Object{
		intp.SystemDict, intp.UserDict, intp.ErrorDict, intp.FontDirectory, intp.Resources, intp.CMapDirectory,
		intp.Resources["ProcSet"], intp.Resources["ProcSet"].(Dict)["CIDInit"], intp.SystemDict["StandardEncoding"],
		intp.Resources["Font"], intp.Resources["CIDFont"], intp.InternalDict,
	}
}

// vpSnapshotOK compares a fresh instance with the reference snapshot taken before the hostile run.
func vpSameInstance(a, b *Interpreter) bool {
	ra, rb := vpReachable(a), vpReachable(b)
	for i := range ra {
		switch x := ra[i].(type) {
		case Dict:
			y, ok := rb[i].(Dict)
			if !ok || len(x) != len(y) {
				return false
			}
			for k, v := range x {
				w, ok := y[k]
				if !ok {
					return false
				}
				switch vv := v.(type) {
				case builtin:
					if _, ok := w.(builtin); !ok {
						return false
					}
				case Boolean:
					if ww, ok := w.(Boolean); !ok || ww != vv {
						return false
					}
				case Dict:
					if ww, ok := w.(Dict); !ok || len(ww) != len(vv) {
						return false
					}
				case Array:
					if ww, ok := w.(Array); !ok || len(ww) != len(vv) {
						return false
					}
				}
			}
		case Array:
			y, ok := rb[i].(Array)
			if !ok || len(x) != len(y) {
				return false
			}
			for k := range x {
				n1, ok1 := x[k].(Name)
				n2, ok2 := y[k].(Name)
				if !ok1 || !ok2 || n1 != n2 {
					return false
				}
			}
		}
	}
	return len(a.DictStack) == len(b.DictStack) && len(a.Stack) == 0 && a.NumOps == 0
}

// C18 K1: whatever one instance does to the objects it can reach, a fresh instance is unaffected
// and no package-level state is written.
func VP_C18_isolation() {
	vpUnwind(600)
	vpAllocLimit(4 << 20)
	ref := NewInterpreter()
	hostile := NewInterpreter()
	hostile.MaxOps = 40
	w0 := vpGlobalWrites()
	targets := vpReachable(hostile)
	t := targets[vpChoose("target", len(targets))]
	val := vpObj(hostile, "v", 1, 2)
	var err error
	switch vpChoose("attack", 7) {
	case 0: // put into the container (dict key from a pool of existing and new names, array at a symbolic index)
		if arr, ok := t.(Array); ok {
			hostile.Stack = append(hostile.Stack, arr, Integer(vpInt64("idx")), val)
		} else {
			keys := []Name{"add", "begincmap", "undefined", "CIDInit", "Font", "newkey", "StandardEncoding"}
			hostile.Stack = append(hostile.Stack, t, keys[vpChoose("key", len(keys))], val)
		}
		err = vpRunOp(hostile, "put")
	case 1: // begin the container and redefine operators
		hostile.Stack = append(hostile.Stack, t)
		err = vpRunOp(hostile, "begin")
		if err == nil {
			hostile.Stack = append(hostile.Stack, Name("add"), val)
			err = vpRunOp(hostile, "def")
		}
	case 2: // copy another dictionary or array over it
		if arr, ok := t.(Array); ok {
			src := make(Array, 256)
			for i := range src {
				src[i] = Name("hacked")
			}
			hostile.Stack = append(hostile.Stack, src, arr)
		} else {
			hostile.Stack = append(hostile.Stack, Dict{"add": val, "begincmap": val, "undefined": val}, t)
		}
		err = vpRunOp(hostile, "copy")
	case 3: // putinterval into the encoding array
		if arr, ok := t.(Array); ok {
			hostile.Stack = append(hostile.Stack, arr, Integer(vpInt64("idx")), Array{Name("x"), Name("y")})
			err = vpRunOp(hostile, "putinterval")
		}
	case 4: // forall with a body that overwrites entries, failing half-way on the budget
		hostile.Stack = append(hostile.Stack, t, Procedure{Operator("pop"), Operator("pop")})
		if arr, ok := t.(Array); ok {
			hostile.Stack = []Object{arr, Procedure{Operator("pop"), arr, Integer(3), Name("z"), Operator("put")}}
		}
		err = vpRunOp(hostile, "forall")
	case 5: // a failing program that redefines an error handler first
		hostile.Stack = append(hostile.Stack, hostile.ErrorDict, Name("typecheck"), Procedure{Integer(1), Operator("stop")})
		err = vpRunOp(hostile, "put")
		hostile.Stack = append(hostile.Stack, Name("x"), Name("y"))
		vpRunOp(hostile, "add")
	default: // write into the composite object an operator hands out: the next instance's result of the same operator is untouched
		ops := []string{"matrix", "array", "dict", "string"}
		op := ops[vpChoose("producer", len(ops))]
		produce := func(in *Interpreter) Object {
			in.Stack = in.Stack[:0]
			if op != "matrix" {
				in.Stack = append(in.Stack, Integer(2))
			}
			if vpRunOp(in, op) != nil || len(in.Stack) != 1 {
				return nil
			}
			res := in.Stack[0]
			in.Stack = in.Stack[:0]
			return res
		}
		flat := func(o Object) []Object {
			switch x := o.(type) {
			case Array:
				return append([]Object{Integer(len(x))}, x...)
			case String:
				out := []Object{Integer(len(x))}
				for _, c := range x {
					out = append(out, Integer(c))
				}
				return out
			case Dict:
				return []Object{Integer(len(x))}
			}
			return nil
		}
		want := flat(produce(ref))
		h := produce(hostile)
		vpAssert("producer-works", want != nil && h != nil)
		switch h.(type) {
		case Dict:
			hostile.Stack = append(hostile.Stack, h, Name("k"), val)
		case String:
			hostile.Stack = append(hostile.Stack, h, Integer(vpChoose("slot", 2)), Integer(65))
		default:
			hostile.Stack = append(hostile.Stack, h, Integer(vpChoose("slot", 2)), val)
		}
		err = vpRunOp(hostile, "put")
		vpAssert("hostile-put-runs", err == nil)
		hostile.Stack = hostile.Stack[:0]
		victim := NewInterpreter()
		g := produce(victim)
		got := flat(g)
		same := len(got) == len(want)
		for i := 0; same && i < len(want); i++ {
			same = vpSameObj(got[i], want[i])
		}
		vpAssert("operator-result-unaffected-by-other-instance", same)
		vpAssert("operator-result-not-shared-between-instances", !vpSameRef(g, h))
	}
	_ = err
	fresh := NewInterpreter()
	vpAssert("monitor:no-package-level-state-written", vpGlobalWrites() == w0)
	vpAssert("fresh-instance-as-if-nothing-happened", vpSameInstance(fresh, ref))
	fr, hr := vpReachable(fresh), vpReachable(hostile)
	shared := false
	for i := range fr {
		if vpSameRef(fr[i], hr[i]) {
			if a, isArr := fr[i].(Array); !isArr || len(a) > 0 {
				shared = true
			}
		}
	}
	vpAssert("no-mutable-object-shared-between-instances", !shared)
	// the fresh instance still works
	fresh.Stack = append(fresh.Stack, Integer(1), Integer(2))
	e2 := vpRunOp(fresh, "add")
	vpAssert("fresh-instance-computes", e2 == nil && vpStackIs(fresh, Integer(3)))
	vpCover("done")
}

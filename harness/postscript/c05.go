package postscript

import "io"

// K1: one step of the eexec stream cipher, for every 16-bit state and every byte.
func VP_C05_cipher_step() {
	r := vpUint16("r")
	c := vpByte("c")
	s := &scanner{r: r}
	p := s.eexecDecode(c)
	vpAssert("plain-is-cipher-xor-high-byte-of-state", p == c^byte(r>>8))
	vpAssert("state-update-52845-22719", s.r == uint16((uint32(c)+uint32(r))*52845+22719))
	vpCover("step")
}

// reference Adobe eexec decryption (key 55665), skipping the first four plaintext bytes
func vpEexecDecryptRef(cipher []byte) []byte {
	var r uint16 = 55665
	var out []byte
	for i, c := range cipher {
		p := c ^ byte(r>>8)
		r = (uint16(c)+r)*52845 + 22719
		if i >= 4 {
			out = append(out, p)
		}
	}
	return out
}

// reference encryption with the given four lead bytes
func vpEexecEncryptRef(lead [4]byte, plain []byte) []byte {
	var r uint16 = 55665
	var out []byte
	all := append(append([]byte{}, lead[:]...), plain...)
	for _, p := range all {
		c := p ^ byte(r>>8)
		r = (uint16(c)+r)*52845 + 22719
		out = append(out, c)
	}
	return out
}

func vpIsHexDigit(b byte) bool {
	return (b >= '0' && b <= '9') || (b >= 'a' && b <= 'f') || (b >= 'A' && b <= 'F')
}

func vpIsBlank(b byte) bool { return b == ' ' || b == '\t' || b == '\r' || b == '\n' }

// K2a: armour detection and binary decryption on arbitrary bytes, any delivery.
func VP_C05_begin_binary() {
	vpUnwind(100)
	n := vpParam("N", 6)
	nws := vpChoose("blanks", vpParam("BLANKS", 1)+1)
	var raw []byte
	blanks := []byte{' ', '\t', '\r', '\n'}
	for i := 0; i < nws; i++ {
		raw = append(raw, blanks[vpChoose("blank", 4)])
	}
	body := vpBytes("c", n)
	vpAssume(!vpIsBlank(body[0]))
	raw = append(raw, body...)
	src := &vpReader{data: raw, mode: vpChoose("mode", 2), faultAt: -1, name: "src"}
	s := newScanner(src)
	err := s.BeginEexec(4)
	allHex := vpIsHexDigit(body[0]) && vpIsHexDigit(body[1]) && vpIsHexDigit(body[2]) && vpIsHexDigit(body[3])
	if allHex {
		// hexadecimal form: eight digits are needed for the four lead bytes (K2b covers decoding)
		vpCover("hex-detected")
		vpAssert("hex-form-detected", err != nil || s.eexec == 1)
		return
	}
	vpAssert("begin-ok", err == nil)
	if err != nil {
		return
	}
	vpCover("binary-detected")
	vpAssert("binary-form-detected", s.eexec == 2)
	vpAssert("peek-buffer-drained", len(s.peek) == 0)
	want := vpEexecDecryptRef(body)
	for i := range want {
		b, err := s.Next()
		vpAssert("binary-plaintext-byte", err == nil && b == want[i])
	}
	_, err = s.Next()
	vpAssert("then-EOF", err == io.EOF)
}

const vpHexLower = "0123456789abcdef"
const vpHexUpper = "0123456789ABCDEF"

// K2b: hexadecimal form: either case, white space at any position after the first four digits.
func VP_C05_begin_hex() {
	vpUnwind(100)
	np := vpParam("PAYLOAD", 2)
	cipher := []byte{0x3a, 0x91, 0x7c, 0x05} // concrete lead bytes (their digits are all hex by construction)
	payload := vpBytes("c", np)
	cipher = append(cipher, payload...)
	upper := vpChoose("upper", 2) == 1
	digits := vpHexLower
	if upper {
		digits = vpHexUpper
	}
	var raw []byte
	for _, c := range cipher {
		raw = append(raw, digits[c>>4], digits[c&15])
	}
	// one blank inserted at a symbolic position >= 4
	pos := 4 + vpChoose("blankpos", len(raw)-4+1)
	blanks := []byte{' ', '\t', '\r', '\n', 0}
	bl := blanks[vpChoose("blank", 5)]
	raw2 := append(append(append([]byte{}, raw[:pos]...), bl), raw[pos:]...)
	src := &vpReader{data: raw2, mode: vpChoose("mode", 2), faultAt: -1, name: "src"}
	s := newScanner(src)
	err := s.BeginEexec(4)
	vpAssert("begin-ok", err == nil && s.eexec == 1)
	if err != nil {
		return
	}
	want := vpEexecDecryptRef(cipher)
	for i := range want {
		b, err := s.Next()
		vpAssert("hex-plaintext-byte", err == nil && b == want[i])
	}
	vpCover("hex-decoded")
}

// K3: a program with a binary eexec section has the effect of its plaintext with systemdict pushed.
func VP_C05_transparent() {
	vpUnwind(400)
	var lead [4]byte
	for i := range lead {
		lead[i] = vpByte("lead" + vpDigit(i))
	}
	clear := "/a 1 def currentfile eexec\n"
	var plain string
	switch vpChoose("program", 3) {
	case 0:
		plain = "/b 2 def /c (x) def mark currentfile closefile\n"
	case 2:
		// the encrypted part leaves a dictionary open: the dictionary stack is still restored
		plain = "/b 2 def 5 dict begin /q 7 def 2 dict begin mark currentfile closefile\n"
	default:
		plain = "/s 3 string def currentfile s readstring \x80\x0a\x0d pop /s exch def mark currentfile closefile\n"
	}
	trailer := "\n00000000\ncleartomark /d 4 def\n"
	// optionally a second encrypted section (hex form, concrete) after the first one's trailer:
	// every eexec starts the cipher afresh
	plain2, trailer2 := "", ""
	if vpChoose("sections", vpParam("SECTIONS", 2)) == 1 {
		plain2 = "/f 6 def mark currentfile closefile\n"
		trailer2 = "\n0000\ncleartomark /g 8 def\n"
	}
	cipher := vpEexecEncryptRef(lead, []byte(plain))
	// legal binary prefix: first byte not blank, not all of the first four hexadecimal
	vpAssume(!vpIsBlank(cipher[0]) && cipher[0] != 0)
	vpAssume(!(vpIsHexDigit(cipher[0]) && vpIsHexDigit(cipher[1]) && vpIsHexDigit(cipher[2]) && vpIsHexDigit(cipher[3])))
	text := append(append([]byte(clear), cipher...), []byte(trailer)...)
	if plain2 != "" {
		text = append(text, []byte("currentfile eexec\n")...)
		for _, c := range vpEexecEncryptRef([4]byte{1, 2, 3, 4}, []byte(plain2)) {
			text = append(text, "0123456789abcdef"[c>>4], "0123456789ABCDEF"[c&15])
		}
		text = append(text, []byte(trailer2)...)
	}
	intp := NewInterpreter()
	intp.MaxOps = 500
	err := intp.Execute(&vpReader{data: text, mode: vpChoose("mode", 2), faultAt: -1, name: "src"})

	ref := NewInterpreter()
	ref.MaxOps = 500
	e1 := ref.ExecuteString("/a 1 def")
	depthBefore := len(ref.DictStack)
	ref.DictStack = append(ref.DictStack, ref.SystemDict)
	e2 := ref.ExecuteString(plain)
	ref.DictStack = ref.DictStack[:depthBefore] // "the dictionary stack is restored"
	e3 := ref.ExecuteString(trailer)
	if plain2 != "" && e3 == nil {
		ref.DictStack = append(ref.DictStack, ref.SystemDict)
		e4 := ref.ExecuteString(plain2)
		ref.DictStack = ref.DictStack[:depthBefore]
		e3 = ref.ExecuteString(trailer2)
		vpAssert("reference-run-ok-2", e4 == nil || e4 == io.EOF)
	}
	vpAssert("reference-run-ok", e1 == nil && (e2 == nil || e2 == io.EOF) && e3 == nil)

	vpAssert("no-error", err == nil)
	vpAssert("dict-stack-restored", len(intp.DictStack) == 2)
	vpAssert("same-stack-depth", len(intp.Stack) == len(ref.Stack))
	for _, k := range []Name{"a", "b", "c", "d", "s", "f", "g"} {
		v1, ok1 := intp.UserDict[k]
		v2, ok2 := ref.UserDict[k]
		vpAssert("same-userdict-keys", ok1 == ok2)
		w1, okw1 := intp.SystemDict[k]
		w2, okw2 := ref.SystemDict[k]
		vpAssert("same-systemdict-keys", okw1 == okw2)
		for _, pair := range [][2]Object{{v1, v2}, {w1, w2}} {
			switch x := pair[0].(type) {
			case Integer:
				y, ok := pair[1].(Integer)
				vpAssert("same-integer-value", ok && x == y)
			case String:
				y, ok := pair[1].(String)
				vpAssert("same-string-value", ok && string(x) == string(y))
			}
		}
	}
	vpCover("ran")
}

package postscript

// Generators shared by the interpreter harnesses.

var vpNamePool = []Name{"a", "add", "StandardEncoding", "undefinedname", "CIDInit", "ProcSet", "CMap", "Font"}

// vpSortedKeys returns the keys of d in a deterministic order (plain insertion sort, so that
// the native replay and the engine agree).
func vpSortedKeys(d Dict) []Name {
	var ks []Name
	for k := range d {
		ks = append(ks, k)
	}
	for i := 1; i < len(ks); i++ {
		for j := i; j > 0 && ks[j] < ks[j-1]; j-- {
			ks[j], ks[j-1] = ks[j-1], ks[j]
		}
	}
	return ks
}

func vpDigit(i int) string { return string(rune('0' + i%10)) }

// vpObj returns an arbitrary PostScript object whose kind and content are only chosen when
// the code under test first looks at it.
func vpObj(intp *Interpreter, tag string, depth int, maxLen int) Object {
	return vpLazy(func() any { return vpObjNow(intp, tag, depth, maxLen) })
}

func vpObjNow(intp *Interpreter, tag string, depth int, maxLen int) Object {
	kinds := 12
	if depth <= 0 {
		kinds = 9
	}
	switch vpChoose(tag+".kind", kinds) {
	case 0:
		return Integer(vpInt64(tag + ".i"))
	case 1:
		return Real(vpFloat64(tag + ".r"))
	case 2:
		return Boolean(vpBool(tag + ".b"))
	case 3:
		return vpNamePool[vpChoose(tag+".name", vpParam("NAMES", 4))]
	case 4:
		return String(vpBytes(tag+".s", vpChoose(tag+".slen", maxLen+1)))
	case 5:
		return theMark
	case 6:
		return nil // the "currentfile" object
	case 7:
		return Operator(vpNamePool[vpChoose(tag+".opname", 3)])
	case 8:
		bs := []Name{"pop", "stop", "exit"}
		return intp.SystemDict[bs[vpChoose(tag+".builtin", len(bs))]]
	case 9:
		n := vpChoose(tag+".alen", maxLen+1)
		a := make(Array, n)
		for i := range a {
			a[i] = vpObj(intp, tag+".e"+vpDigit(i), depth-1, maxLen)
		}
		return a
	case 10:
		n := vpChoose(tag+".plen", maxLen+1)
		p := make(Procedure, n)
		for i := range p {
			p[i] = vpObj(intp, tag+".p"+vpDigit(i), depth-1, maxLen)
		}
		return p
	default:
		switch vpChoose(tag+".dict", 7) {
		case 5:
			return Dict{"0": Integer(1)}
		case 6:
			return Dict{"x": Integer(1)}
		case 0:
			return Dict{}
		case 1:
			return Dict{"a": vpObj(intp, tag+".dv", depth-1, maxLen)}
		case 2:
			return Dict{"a": Integer(1), "b": vpObj(intp, tag+".dv", depth-1, maxLen)}
		case 3:
			return intp.SystemDict
		default:
			return intp.UserDict
		}
	}
}

// vpOpNames lists the operators of the system dictionary and of the CIDInit procedure set.
func vpOpNames(intp *Interpreter) (names []Name, dicts []Dict) {
	for _, k := range vpSortedKeys(intp.SystemDict) {
		if _, ok := intp.SystemDict[k].(builtin); ok {
			names = append(names, k)
			dicts = append(dicts, intp.SystemDict)
		}
	}
	cid := intp.Resources["ProcSet"].(Dict)["CIDInit"].(Dict)
	for _, k := range vpSortedKeys(cid) {
		if _, ok := cid[k].(builtin); ok {
			names = append(names, k)
			dicts = append(dicts, cid)
		}
	}
	return
}

// vpIsPSError reports whether err is one of the values an operator may legitimately return.
func vpIsPSError(err error) bool {
	if err == nil || err == errExit || err == errStop {
		return true
	}
	if _, ok := err.(*postScriptError); ok {
		return true
	}
	return false
}

package postscript

import "io"

// K1: one execution step from an arbitrary budget state.
func VP_C11_counter() {
	vpAllocLimit(4 << 20)
	vpUnwind(40)
	intp := NewInterpreter()
	N := vpInt("maxops")
	used := vpInt("numops")
	vpAssume(N > 0 && N < 1<<62)
	vpAssume(used >= 0 && used <= N)
	intp.MaxOps = N
	intp.NumOps = used
	intp.Stack = append(intp.Stack, vpObj(intp, "a0", 1, 2), vpObj(intp, "a1", 1, 2))
	pre := append([]Object{}, intp.Stack...)
	var obj Object
	switch vpChoose("obj", 5) {
	case 4:
		obj = Procedure{}
	case 0:
		obj = Integer(5)
	case 1:
		names := []Name{"pop", "exec", "if", "undefinedname", "dup", "stop"}
		obj = Operator(names[vpChoose("opname", len(names))])
	case 2:
		obj = intp.SystemDict["exch"]
	default:
		obj = Procedure{Integer(1), Operator("pop")}
	}
	err := intp.executeOne(obj, vpChoose("execproc", 2) == 1)
	vpAssert("never-counts-past-N+1", intp.NumOps <= N+1)
	if used == N {
		vpCover("budget-exhausted-before-step")
		vpAssert("limit-error-when-budget-used-up", err == ErrExecutionLimitExceeded)
		same := len(intp.Stack) == len(pre)
		if same {
			for i := range pre {
				if !vpSameObj(intp.Stack[i], pre[i]) {
					same = false
				}
			}
		}
		vpAssert("nothing-executed-after-the-budget", same && len(intp.DictStack) == 2)
	}
	if err == ErrExecutionLimitExceeded {
		vpCover("limit-error")
		vpAssert("limit-error-only-beyond-budget", intp.NumOps > N)
	} else {
		vpCover("within-budget")
		vpAssert("no-limit-error-within-budget", intp.NumOps <= N)
	}
}

var vpPrograms = []string{
	"1 2 add 3 mul",
	"/x { 1 add } def 0 x x x",
	"0 1 1 3 { add } for",
	"3 { 7 } repeat count",
	"[ 1 2 3 ] { 2 mul } forall",
	"/f { dup 0 eq { pop } { 1 sub f } ifelse } def 3 f 9",
	"<< /a 1 /b 2 >> begin a b add end",
	"{ 1 exit } loop 2",
	"1 dict begin /q 5 def q end",
	"(abc) 1 get 2 string 0 3 -1 roll put",
}

// K2: whole runs under a symbolic budget N: limit error with NumOps = N+1 exactly when N is
// smaller than the number of operations the program needs, otherwise the unbudgeted result.
func VP_C11_budget_run() {
	vpUnwind(300)
	text := vpPrograms[vpChoose("program", vpParam("PROGRAMS", len(vpPrograms)))]
	ref := NewInterpreter()
	errRef := ref.ExecuteString(text)
	need := ref.NumOps
	vpAssert("reference-run-ok", errRef == nil)
	intp := NewInterpreter()
	N := vpInt("N")
	vpAssume(N >= 1 && N <= need+2)
	intp.MaxOps = N
	err := intp.ExecuteString(text)
	if N < need {
		vpCover("cut")
		vpAssert("limit-error-iff-budget-too-small", err == ErrExecutionLimitExceeded)
		vpAssert("counter-stops-at-N+1", intp.NumOps == N+1)
	} else {
		vpCover("enough")
		vpAssert("no-error-with-enough-budget", err == nil)
		vpAssert("same-operation-count", intp.NumOps == need)
		same := len(intp.Stack) == len(ref.Stack)
		if same {
			for i := range ref.Stack {
				a, b := intp.Stack[i], ref.Stack[i]
				switch x := a.(type) {
				case Integer:
					y, ok := b.(Integer)
					same = same && ok && x == y
				case Real:
					y, ok := b.(Real)
					same = same && ok && x == y
				case String:
					y, ok := b.(String)
					same = same && ok && string(x) == string(y)
				case Array:
					y, ok := b.(Array)
					same = same && ok && len(x) == len(y)
				}
			}
		}
		vpAssert("same-final-stack-as-unbudgeted", same)
		vpAssert("same-dict-stack-depth", len(intp.DictStack) == len(ref.DictStack))
	}
}

// K3: resource limits independent of the budget.
func VP_C11_limits() {
	vpUnwind(700)
	vpStepLimit(4000000)
	intp := NewInterpreter()
	switch vpChoose("which", 7) {
	case 5: // loops with empty bodies are cut by the budget
		intp.MaxOps = 30
		text := []string{"{ } loop", "100000 { } repeat", "0 0 1 { pop } for", "/e { } def { e } loop"}[vpChoose("emptyloop", 4)]
		err := intp.ExecuteString(text)
		vpAssert("empty-body-loop-cut-by-budget", err == ErrExecutionLimitExceeded && intp.NumOps == 31)
		vpCover("empty-loop")
	case 0: // a loop that pushes for ever is cut by stackoverflow
		err := intp.ExecuteString("{ 1 } loop")
		pe, ok := err.(*postScriptError)
		vpAssert("operand-stack-growth-cut-off", ok && pe.tp == eStackoverflow)
		vpAssert("operand-stack-bounded", len(intp.Stack) <= 4*(maxOperandStackDepth+1))
		vpCover("stackoverflow")
	case 1: // begin in a loop is cut by dictstackoverflow
		err := intp.ExecuteString("{ 1 dict begin } loop")
		pe, ok := err.(*postScriptError)
		vpAssert("dict-stack-growth-cut-off", ok && pe.tp == eDictstackoverflow)
		vpAssert("dict-stack-bounded", len(intp.DictStack) <= maxDictStackDepth)
		vpCover("dictstackoverflow")
	case 2: // one more push on a full stack
		n := maxOperandStackDepth - 1 + vpChoose("fill", 3)
		for i := 0; i < n; i++ {
			intp.Stack = append(intp.Stack, Integer(i))
		}
		err := intp.executeOne(Integer(1), false)
		err2 := intp.executeOne(Integer(2), false)
		pe, ok := err2.(*postScriptError)
		if err == nil && err2 == nil {
			vpAssert("stack-below-limit", len(intp.Stack) <= maxOperandStackDepth+1)
		} else {
			pe1, ok1 := err.(*postScriptError)
			vpAssert("push-on-full-stack-is-stackoverflow", (ok && pe.tp == eStackoverflow) || (ok1 && pe1.tp == eStackoverflow))
		}
		vpCover("full-stack")
	case 3: // oversized containers
		sz := Integer(vpInt64("size"))
		ops := []string{"array", "string", "dict"}
		op := ops[vpChoose("ctor", 3)]
		intp.Stack = append(intp.Stack, sz)
		vpAllocLimit(2 << 20)
		err := vpRunOp(intp, op)
		if sz > 65536 {
			pe, ok := err.(*postScriptError)
			vpAssert("oversized-request-is-limitcheck", ok && pe.tp == eLimitcheck)
			vpCover("limitcheck")
		} else if sz >= 0 {
			vpAssert("in-range-request-succeeds", err == nil)
		}
	case 6: // a procedure body that is still being read does not escape the operand stack limit
		n := []int{maxOperandStackDepth - 5, maxOperandStackDepth + 5, 4 * maxOperandStackDepth}[vpChoose("bodytokens", 3)]
		text := []byte("7 {")
		if vpChoose("nested", 2) == 1 {
			text = append(text, " 8 {"...)
		}
		for i := 0; i < n; i++ {
			text = append(text, " 1"...)
		}
		if vpChoose("closed", 2) == 1 {
			text = append(text, " } }"...)
		}
		err := intp.Execute(&vpReader{data: text, faultAt: -1, name: "body"})
		vpAssert("operand-stack-bounded", len(intp.Stack) <= 4*(maxOperandStackDepth+1))
		if n > maxOperandStackDepth {
			pe, ok := err.(*postScriptError)
			vpAssert("long-open-body-is-stackoverflow", ok && pe.tp == eStackoverflow)
		}
		vpCover("open-body")
	default: // begin at the depth limit
		for len(intp.DictStack) < maxDictStackDepth {
			intp.DictStack = append(intp.DictStack, Dict{})
		}
		intp.Stack = append(intp.Stack, Dict{})
		err := vpRunOp(intp, "begin")
		pe, ok := err.(*postScriptError)
		vpAssert("begin-at-limit-is-dictstackoverflow", ok && pe.tp == eDictstackoverflow && len(intp.DictStack) == maxDictStackDepth)
		vpCover("begin-at-limit")
	}
}

var vpRecursions = []string{
	"/a { a 1 } def a",
	"/a { 1 a pop } def a",
	"/a { { a } exec 1 } def a",
	"/a { true { a } if 1 } def a",
	"/a { true { a } { } ifelse 1 } def a",
	"/a { 1 1 1 { pop a } for 1 } def a",
	"/a { 1 { a } repeat 1 } def a",
	"/a { { a exit } loop 1 } def a",
	"/a { [ 1 ] { pop a } forall 1 } def a",
	"errordict /undefined { nosuchname } put nosuchname",
	"/a { /a load exec 1 } def a",
}

// K4: execution nesting is cut off by a PostScript error instead of growing the Go stack.
func VP_C11_nesting() {
	vpUnwind(100000)
	vpStepLimit(30000000)
	vpDepthLimit(vpParam("FRAMES", 3000))
	text := vpRecursions[vpChoose("shape", vpParam("SHAPES", len(vpRecursions)))]
	intp := NewInterpreter()
	err := intp.ExecuteString(text)
	pe, ok := err.(*postScriptError)
	if text == vpRecursions[9] {
		// a failing error handler is cut off by the handler-nesting rule with the original error
		vpAssert("failing-error-handler-ends-in-a-postscript-error", ok)
	} else {
		vpAssert("runaway-nesting-ends-in-a-postscript-error", ok && (pe.tp == eExecstackoverflow || pe.tp == eStackoverflow || pe.tp == eDictstackoverflow))
	}
	vpCover("cut-off")
}

// K5: the %! start check.
func VP_C11_startcheck() {
	vpUnwind(40)
	n := vpChoose("len", 4)
	data := vpBytes("in", n)
	// what follows the first bytes: nothing, or a program that fails in one of several ways
	// (the check, once passed, is not repeated - whether or not that first run succeeds)
	tail := []string{"", "\npop", "\n1 exit", "\n1 0 idiv", "\n/x load"}[vpChoose("tail", 5)]
	data = append(data, tail...)
	mode := vpChoose("mode", 2)
	src := &vpReader{data: data, mode: mode, faultAt: -1, name: "src"}
	intp := NewInterpreter()
	intp.CheckStart = true
	intp.MaxOps = 50
	err := intp.Execute(src)
	good := n >= 2 && data[0] == '%' && data[1] == '!'
	if !good {
		vpCover("rejected")
		vpAssert("not-postscript-error", err == ErrNoPostScript)
		vpAssert("nothing-executed", intp.NumOps == 0 && len(intp.Stack) == 0)
		vpAssert("flag-still-set", intp.CheckStart)
		return
	}
	vpCover("accepted")
	vpAssert("check-passed", err != ErrNoPostScript)
	vpAssert("flag-cleared", !intp.CheckStart)
	// not repeated on later calls
	err2 := intp.ExecuteString("1")
	vpAssert("not-rechecked", err2 == nil)
	_ = io.EOF
}

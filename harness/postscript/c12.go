package postscript

import "io"

// vpTokenSame compares two tokens by value.
func vpTokenSame(a, b Object) bool {
	switch x := a.(type) {
	case Integer:
		y, ok := b.(Integer)
		return ok && x == y
	case Real:
		y, ok := b.(Real)
		return ok && (x == y || (x != x && y != y))
	case Name:
		y, ok := b.(Name)
		return ok && x == y
	case Operator:
		y, ok := b.(Operator)
		return ok && x == y
	case String:
		y, ok := b.(String)
		return ok && string(x) == string(y)
	}
	return false
}

type vpScanResult struct {
	toks []Object
	err  error
	line int
	col  int
	dsc  int
}

func vpScanAll(r io.Reader, max int) vpScanResult {
	s := newScanner(r)
	var res vpScanResult
	for k := 0; k < max; k++ {
		o, err := s.ScanToken()
		if err != nil {
			res.err = err
			break
		}
		res.toks = append(res.toks, o)
	}
	res.line, res.col, res.dsc = s.Line, s.Col, len(s.DSC)
	return res
}

func vpErrClass(err error) int {
	switch {
	case err == nil:
		return 0
	case err == io.EOF:
		return 1
	case err == errVPFault:
		return 2
	}
	if _, ok := err.(*postScriptError); ok {
		return 3
	}
	return 4
}

// vpText builds the input: optional blank filler (to straddle the 512-byte buffer refill),
// then either arbitrary bytes or a template with symbolic payload.
func vpText() []byte {
	var text []byte
	fillers := []int{0, 510, 511}
	for i := fillers[vpChoose("filler", vpParam("FILLERS", 3))]; i > 0; i-- {
		text = append(text, ' ')
	}
	switch vpChoose("shape", vpParam("SHAPES", 5)) {
	case 0:
		text = append(text, vpBytes("t", vpParam("N", 3))...)
	case 1:
		p := vpBytes("p", 2)
		text = append(text, '(', p[0], p[1], ')', ' ', '/', 'x')
	case 2:
		p := vpBytes("p", 2)
		text = append(text, '<', p[0], p[1], '>', '[')
	case 3:
		p := vpBytes("p", 1)
		text = append(text, '%', '%', 'K', ':', ' ', p[0], '\n', '%', '%', '+', 'v', '\r', '\n', '1', '2', ' ', 'a', 'b')
	default:
		p := vpBytes("p", 2)
		text = append(text, '<', '~', p[0], p[1], '~', '>', '<', '<')
	}
	return text
}

// K1: the token sequence does not depend on how the reader delivers the bytes.
func VP_C12_scan() {
	vpUnwind(1200)
	text := vpText()
	a := vpScanAll(&vpReader{data: text, mode: 0, faultAt: -1, name: "a"}, 8)
	var rb *vpReader
	switch vpChoose("schedule", 3) {
	case 0:
		rb = &vpReader{data: text, mode: 1, faultAt: -1, name: "b"}
	case 1:
		rb = &vpReader{data: text, mode: 0, eofWithData: true, faultAt: -1, name: "b"}
	default:
		split := len(text) - vpChoose("splitFromEnd", vpParam("SPLITS", 6))
		if split < 0 {
			split = 0
		}
		rb = &vpReader{data: text, mode: 2, splitAt: split, eofWithData: vpChoose("eofWithData", 2) == 1, faultAt: -1, name: "b"}
	}
	b := vpScanAll(rb, 8)
	vpAssert("same-number-of-tokens", len(a.toks) == len(b.toks))
	if len(a.toks) == len(b.toks) {
		same := true
		for i := range a.toks {
			if !vpTokenSame(a.toks[i], b.toks[i]) {
				same = false
			}
		}
		vpAssert("same-tokens", same)
	}
	vpAssert("same-final-condition", vpErrClass(a.err) == vpErrClass(b.err))
	vpAssert("same-position-bookkeeping", a.line == b.line && a.col == b.col && a.dsc == b.dsc)
	vpCover("compared")
}

var vpSplitPrograms = [][]string{
	{"1", "2", "add", "/x", "exch", "def"},
	{"/p", "{", "1", "{", "2", "}", "3", "}", "def", "p"},
	{"[", "1", "(a b)", "<41>", "]", "length"},
	{"<<", "/k", "5", ">>", "begin", "k", "end"},
}

// K4: feeding a program in two Execute calls split at a token boundary equals one call.
func VP_C12_split_execute() {
	vpUnwind(400)
	toks := vpSplitPrograms[vpChoose("program", len(vpSplitPrograms))]
	k := vpChoose("split", len(toks)+1)
	join := func(ts []string) string {
		s := ""
		for i, t := range ts {
			if i > 0 {
				s += " "
			}
			s += t
		}
		return s
	}
	one := NewInterpreter()
	e1 := one.ExecuteString(join(toks))
	two := NewInterpreter()
	e2a := two.ExecuteString(join(toks[:k]))
	e2b := two.ExecuteString(join(toks[k:]))
	vpAssert("no-errors", e1 == nil && e2a == nil && e2b == nil)
	vpAssert("same-stack-depth", len(one.Stack) == len(two.Stack))
	if len(one.Stack) == len(two.Stack) {
		same := true
		for i := range one.Stack {
			switch x := one.Stack[i].(type) {
			case Integer:
				y, ok := two.Stack[i].(Integer)
				same = same && ok && x == y
			case Procedure:
				y, ok := two.Stack[i].(Procedure)
				same = same && ok && len(x) == len(y)
			}
		}
		vpAssert("same-stack", same)
	}
	v1, ok1 := one.UserDict["x"]
	v2, ok2 := two.UserDict["x"]
	vpAssert("same-definitions", ok1 == ok2 && (!ok1 || vpTokenSame(v1, v2)))
	vpAssert("same-operation-count", one.NumOps == two.NumOps)
	vpAssert("same-dict-stack", len(one.DictStack) == len(two.DictStack))
	vpCover("compared")
}

package postscript

import "bytes"

type vpBlock struct {
	begin, end Name
	per        int // operands per entry
	dst        int // 0 none (code space), 1 integer, 2 string or name, 3 string or array
}

var vpBlocks = []vpBlock{
	{"begincodespacerange", "endcodespacerange", 2, 0},
	{"begincidchar", "endcidchar", 2, 1},
	{"begincidrange", "endcidrange", 3, 1},
	{"beginbfchar", "endbfchar", 2, 2},
	{"beginbfrange", "endbfrange", 3, 3},
	{"beginnotdefchar", "endnotdefchar", 2, 1},
	{"beginnotdefrange", "endnotdefrange", 3, 1},
}

func vpCID(intp *Interpreter) Dict { return intp.Resources["ProcSet"].(Dict)["CIDInit"].(Dict) }

func vpCIDOp(intp *Interpreter, name Name) error {
	return intp.executeOne(vpCID(intp)[name], true)
}

// vpTableLen returns the number of entries of the table that block kind k appends to.
func vpTableLen(m *CMapInfo, k int) int {
	switch k {
	case 0:
		return len(m.CodeSpaceRanges)
	case 1:
		return len(m.CidChars)
	case 2:
		return len(m.CidRanges)
	case 3:
		return len(m.BfChars)
	case 4:
		return len(m.BfRanges)
	case 5:
		return len(m.NotdefChars)
	default:
		return len(m.NotdefRanges)
	}
}

// vpEntry returns source code(s) and destination of entry i of the table of kind k.
func vpEntry(m *CMapInfo, k, i int) (lo, hi []byte, dst Object) {
	switch k {
	case 0:
		return m.CodeSpaceRanges[i].Low, m.CodeSpaceRanges[i].High, nil
	case 1:
		return m.CidChars[i].Src, nil, m.CidChars[i].Dst
	case 2:
		return m.CidRanges[i].Low, m.CidRanges[i].High, m.CidRanges[i].Dst
	case 3:
		return m.BfChars[i].Src, nil, m.BfChars[i].Dst
	case 4:
		return m.BfRanges[i].Low, m.BfRanges[i].High, m.BfRanges[i].Dst
	case 5:
		return m.NotdefChars[i].Src, nil, m.NotdefChars[i].Dst
	default:
		return m.NotdefRanges[i].Low, m.NotdefRanges[i].High, m.NotdefRanges[i].Dst
	}
}

func vpDstOK(kind int, o Object) bool {
	switch kind {
	case 1:
		_, ok := o.(Integer)
		return ok
	case 2:
		switch o.(type) {
		case String, Name:
			return true
		}
		return false
	case 3:
		switch o.(type) {
		case String, Array:
			return true
		}
		return false
	}
	return true
}

// vpEntryValid: the entry's operands are of the right types, equal code lengths, not reversed.
func vpEntryValid(b vpBlock, ops []Object) bool {
	lo, ok := ops[0].(String)
	if !ok {
		return false
	}
	if b.per == 3 || b.dst == 0 {
		hi, ok := ops[1].(String)
		if !ok || len(lo) != len(hi) {
			return false
		}
		// reversed range: low > high in byte order
		for i := range lo {
			if lo[i] != hi[i] {
				if lo[i] > hi[i] {
					return false
				}
				break
			}
		}
	}
	if b.dst != 0 {
		return vpDstOK(b.dst, ops[b.per-1])
	}
	return true
}

// K1: one begin.../end... block with an arbitrary declared count and lazily typed operands.
func VP_C07_block() {
	vpUnwind(100)
	vpAllocLimit(1 << 20)
	intp := NewInterpreter()
	intp.MaxOps = 50
	k := vpChoose("kind", len(vpBlocks))
	b := vpBlocks[k]
	inCMap := vpChoose("begincmap", 2) == 1
	if inCMap {
		intp.cmapMappings = &CMapInfo{}
		// something is already in the tables
		intp.cmapMappings.CidChars = []CharMap{{Src: []byte{9}, Dst: Integer(9)}}
	}
	below := Integer(77)
	intp.Stack = append(intp.Stack, below)
	n := Integer(vpInt64("n"))
	intp.Stack = append(intp.Stack, n)
	err := vpCIDOp(intp, b.begin)
	if !inCMap {
		vpCover("outside-cmap")
		vpAssert("block-outside-cmap-rejected", err != nil)
		return
	}
	if n < 0 || n > 100 {
		vpCover("bad-count")
		vpAssert("count-out-of-range-rejected", err != nil)
		vpAssert("nothing-stored-for-bad-count", vpTableLen(intp.cmapMappings, k) == map[bool]int{true: 1, false: 0}[k == 1])
		return
	}
	vpAssert("begin-ok", err == nil && len(intp.Stack) == 1)
	vpAssume(n <= Integer(vpParam("ENTRIES", 2)))
	cnt := int(n)
	supplied := cnt*b.per - vpChoose("missing", 2) // optionally one operand fewer than declared
	if supplied < 0 {
		supplied = 0
	}
	var ops []Object
	for i := 0; i < supplied; i++ {
		o := vpObj(intp, "e"+vpDigit(i), 1, 2)
		ops = append(ops, o)
		intp.Stack = append(intp.Stack, o)
	}
	before := vpTableLen(intp.cmapMappings, k)
	cm := intp.cmapMappings
	err = vpCIDOp(intp, b.end)
	valid := supplied == cnt*b.per
	if valid {
		for i := 0; i < cnt; i++ {
			if !vpEntryValid(b, ops[i*b.per:(i+1)*b.per]) {
				valid = false
			}
		}
	}
	if !valid {
		vpCover("rejected")
		vpAssert("invalid-block-rejected", err != nil)
		vpAssert("invalid-block-not-stored", vpTableLen(cm, k) == before)
		return
	}
	vpCover("stored")
	vpAssert("valid-block-accepted", err == nil)
	vpAssert("exactly-n-entries-added", vpTableLen(cm, k) == before+cnt)
	vpAssert("operands-removed-rest-untouched", len(intp.Stack) == 1 && vpSameObj(intp.Stack[0], below))
	if err == nil && vpTableLen(cm, k) == before+cnt {
		for i := 0; i < cnt; i++ {
			lo, hi, dst := vpEntry(cm, k, before+i)
			e := ops[i*b.per : (i+1)*b.per]
			ok := vpSameRef(lo, []byte(e[0].(String)))
			if b.per == 3 || b.dst == 0 {
				ok = ok && vpSameRef(hi, []byte(e[1].(String)))
			}
			if b.dst != 0 {
				ok = ok && vpSameObj(dst, e[b.per-1])
			}
			vpAssert("entry-unchanged-and-in-order", ok)
		}
	}
}

// K2: entries stored by one block are not disturbed by the next block (scratch buffers).
func VP_C07_two_blocks() {
	vpUnwind(100)
	intp := NewInterpreter()
	intp.MaxOps = 100
	intp.cmapMappings = &CMapInfo{}
	cm := intp.cmapMappings
	mk := func(tag string, k int) (vpBlock, []Object) {
		b := vpBlocks[k]
		var ops []Object
		code := String(vpBytes(tag+".lo", 1))
		ops = append(ops, code)
		if b.per == 3 || b.dst == 0 {
			hi := String(vpBytes(tag+".hi", 1))
			vpAssume(code[0] <= hi[0])
			ops = append(ops, hi)
		}
		switch b.dst {
		case 1:
			ops = append(ops, Integer(vpInt64(tag+".cid")))
		case 2, 3:
			ops = append(ops, String(vpBytes(tag+".dst", 1)))
		}
		return b, ops
	}
	k1 := vpChoose("first", len(vpBlocks))
	k2 := vpChoose("second", len(vpBlocks))
	b1, ops1 := mk("a", k1)
	intp.Stack = append(append(intp.Stack, Integer(1)), nil)[:1]
	e1 := vpCIDOp(intp, b1.begin)
	intp.Stack = append(intp.Stack, ops1...)
	e2 := vpCIDOp(intp, b1.end)
	b2, ops2 := mk("b", k2)
	intp.Stack = append(intp.Stack, Integer(1))
	e3 := vpCIDOp(intp, b2.begin)
	intp.Stack = append(intp.Stack, ops2...)
	e4 := vpCIDOp(intp, b2.end)
	vpAssert("both-blocks-accepted", e1 == nil && e2 == nil && e3 == nil && e4 == nil)
	if e1 != nil || e2 != nil || e3 != nil || e4 != nil {
		return
	}
	lo, hi, dst := vpEntry(cm, k1, 0)
	ok := bytes.Equal(lo, []byte(ops1[0].(String)))
	if b1.per == 3 || b1.dst == 0 {
		ok = ok && bytes.Equal(hi, []byte(ops1[1].(String)))
	}
	if b1.dst != 0 {
		ok = ok && vpSameObj(dst, ops1[b1.per-1])
	}
	vpAssert("first-entry-survives-second-block", ok)
	want2 := 1
	if k1 == k2 {
		want2 = 2
	}
	vpAssert("second-entry-stored", vpTableLen(cm, k2) == want2)
	vpCover("done")
}

// K3: endcmap sorts every table by source code and keeps it a permutation; CodeMap is stored.
func VP_C07_endcmap() {
	vpUnwind(200)
	intp := NewInterpreter()
	intp.MaxOps = 100
	cm := &CMapInfo{}
	intp.cmapMappings = cm
	n := vpChoose("n", 4)
	var sum int
	for i := 0; i < n; i++ {
		src := vpBytes("k"+vpDigit(i), 1+vpChoose("klen"+vpDigit(i), 2))
		sum += int(src[0])
		cm.CidChars = append(cm.CidChars, CharMap{Src: src, Dst: Integer(i)})
		cm.BfRanges = append(cm.BfRanges, RangeMap{Low: src, High: src, Dst: String{byte(i)}})
		cm.CodeSpaceRanges = append(cm.CodeSpaceRanges, CodeSpaceRange{Low: src, High: src})
	}
	intp.Stack = append(intp.Stack, Name("Other"))
	eu := vpCIDOp(intp, "usecmap")
	d := Dict{}
	intp.DictStack = append(intp.DictStack, d)
	err := vpCIDOp(intp, "endcmap")
	vpAssert("endcmap-ok", err == nil && eu == nil)
	got, ok := d["CodeMap"].(*CMapInfo)
	vpAssert("codemap-stored-in-current-dict", ok && got == cm)
	vpAssert("usecmap-recorded", cm.UseCMap == "Other")
	vpAssert("same-number-of-entries", len(cm.CidChars) == n && len(cm.BfRanges) == n && len(cm.CodeSpaceRanges) == n)
	sorted := true
	var sum2 int
	seen := 0
	for i := range cm.CidChars {
		sum2 += int(cm.CidChars[i].Src[0])
		seen += 1 << uint(cm.CidChars[i].Dst.(Integer))
		if i > 0 {
			if bytes.Compare(cm.CidChars[i-1].Src, cm.CidChars[i].Src) > 0 {
				sorted = false
			}
			if bytes.Compare(cm.BfRanges[i-1].Low, cm.BfRanges[i].Low) > 0 {
				sorted = false
			}
			a, b := cm.CodeSpaceRanges[i-1].Low, cm.CodeSpaceRanges[i].Low
			if len(a) > len(b) || (len(a) == len(b) && bytes.Compare(a, b) > 0) {
				sorted = false
			}
		}
	}
	vpAssert("tables-sorted-by-source-code", sorted)
	vpAssert("tables-are-permutations", sum2 == sum && seen == (1<<uint(n))-1)
	vpCover("done")
}

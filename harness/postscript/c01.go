package postscript

import "io"

func vpSameDict(a, b Dict) bool {
	if len(a) != len(b) {
		return false
	}
	_, x := a["systemdict"]
	_, y := b["systemdict"]
	return x == y
}

// C01 K1: one operator step from an arbitrary admissible interpreter state never panics,
// never allocates absurdly, and terminates under the operation budget.
func VP_C01_opstep() {
	vpAllocLimit(4 << 20)
	vpUnwind(vpParam("UNWIND", 40))
	maxLen := vpParam("MAXLEN", 2)
	intp := NewInterpreter()
	intp.MaxOps = vpParam("MAXOPS", 6)
	names, dicts := vpOpNames(intp)
	first := vpParam("FIRST", 0)
	last := vpParam("LAST", len(names))
	if last > len(names) {
		last = len(names)
	}
	k := first + vpChoose("op", last-first)
	isCID := k < len(names) && !vpSameDict(dicts[k], intp.SystemDict)
	// CMap operators need a begincmap in most states
	if isCID && vpChoose("incmap", 2) == 1 {
		intp.cmapMappings = &CMapInfo{}
	}
	// dictionary stack shape (only in the dictionary-stack variant of this harness)
	if vpParam("DICTSHAPES", 0) == 1 {
		switch vpChoose("dictstack", 3) {
		case 1:
			intp.DictStack = append(intp.DictStack, Dict{"a": Integer(7)})
		case 2:
			for len(intp.DictStack) < maxDictStackDepth {
				intp.DictStack = append(intp.DictStack, Dict{})
			}
		}
	}
	// operand stack: D arbitrary objects, or a short stack (for the underflow checks)
	D := vpParam("DEPTH", 4)
	switch shape := vpChoose("stackshape", D+2); {
	case shape == 0:
		for i := 0; i < D; i++ {
			intp.Stack = append(intp.Stack, vpObj(intp, "a"+vpDigit(i), vpParam("NEST", 1), maxLen))
		}
	case shape == 1:
		intp.Stack = append(intp.Stack, vpObj(intp, "a", vpParam("NEST", 1), maxLen))
	default:
		for i := 0; i < shape-2; i++ {
			intp.Stack = append(intp.Stack, Integer(1))
		}
	}
	// operators only ever run while some input is being scanned
	src := &vpReader{data: vpBytes("in", vpParam("INPUT", 2)), faultAt: -1, name: "in"}
	intp.scanners = append(intp.scanners, newScanner(src))
	op := dicts[k][names[k]]
	err := intp.executeOne(op, true)
	vpAssert("returns-a-postscript-error-or-nil", vpIsPSError(err) || err == io.EOF)
	vpCover("returned")
}

package postscript

import "math"

// C02: data operators against reference functions written from the PLRM.
//
// A reference function looks at the operand stack before the call and returns what the
// PLRM prescribes: the number of operands consumed and the objects pushed, or the set of
// acceptable error names (one name when exactly one precondition is violated; when several
// are violated at once any of their names is accepted).

type vpSpec struct {
	pop  int
	push []Object
	errs []Name
	skip bool // the reference leaves this case open
	post func(intp *Interpreter) bool
}

func vpErr(names ...Name) vpSpec { return vpSpec{errs: names} }

// vpSameObj: scalars by value, composites by identity (shared storage).
func vpSameObj(a, b Object) bool {
	if vpSameLazy(a, b) {
		return true
	}
	switch x := a.(type) {
	case nil:
		return b == nil
	case Integer:
		y, ok := b.(Integer)
		return ok && x == y
	case Real:
		y, ok := b.(Real)
		return ok && (x == y || (x != x && y != y))
	case Boolean:
		y, ok := b.(Boolean)
		return ok && x == y
	case Name:
		y, ok := b.(Name)
		return ok && x == y
	case Operator:
		y, ok := b.(Operator)
		return ok && x == y
	case mark:
		_, ok := b.(mark)
		return ok
	case String:
		y, ok := b.(String)
		return ok && vpSameRef(x, y)
	case Array:
		y, ok := b.(Array)
		return ok && vpSameRef(x, y)
	case Procedure:
		y, ok := b.(Procedure)
		return ok && vpSameRef(x, y)
	case Dict:
		y, ok := b.(Dict)
		return ok && vpSameRef(x, y)
	case builtin:
		_, ok := b.(builtin)
		return ok
	}
	return false
}

func vpIsNum(o Object) bool {
	switch o.(type) {
	case Integer, Real:
		return true
	}
	return false
}

func vpAsReal(o Object) Real {
	switch x := o.(type) {
	case Integer:
		return Real(x)
	case Real:
		return x
	}
	return 0
}

func vpAddOverflows(a, b Integer) bool {
	if b > 0 {
		return a > math.MaxInt64-b
	}
	return a < math.MinInt64-b
}

func vpSubOverflows(a, b Integer) bool {
	if b < 0 {
		return a > math.MaxInt64+b
	}
	return a < math.MinInt64+b
}

// vpSpecFor returns the reference result for operator name on the given stack.
func vpSpecFor(intp *Interpreter, name Name, st []Object) vpSpec {
	n := len(st)
	top := func(i int) Object { return st[n-1-i] }
	switch name {
	case "pop":
		if n < 1 {
			return vpErr(eStackunderflow)
		}
		return vpSpec{pop: 1}
	case "exch":
		if n < 2 {
			return vpErr(eStackunderflow)
		}
		return vpSpec{pop: 2, push: []Object{top(0), top(1)}}
	case "dup":
		if n < 1 {
			return vpErr(eStackunderflow)
		}
		return vpSpec{pop: 0, push: []Object{top(0)}}
	case "count":
		return vpSpec{push: []Object{Integer(n)}}
	case "mark", "[", "<<":
		return vpSpec{push: []Object{theMark}}
	case "true":
		return vpSpec{push: []Object{Boolean(true)}}
	case "currentdict":
		return vpSpec{push: []Object{intp.DictStack[len(intp.DictStack)-1]}}
	case "index":
		if n < 1 {
			return vpErr(eStackunderflow)
		}
		i, ok := top(0).(Integer)
		if n == 1 {
			// no valid index exists: several preconditions are violated at once
			return vpErr(eStackunderflow, eRangecheck, eTypecheck)
		}
		if !ok {
			return vpErr(eTypecheck)
		}
		if i < 0 {
			return vpErr(eRangecheck)
		}
		if i > Integer(n-2) {
			return vpErr(eRangecheck, eStackunderflow)
		}
		return vpSpec{pop: 1, push: []Object{st[n-2-int(i)]}}
	case "copy":
		if n < 1 {
			return vpErr(eStackunderflow)
		}
		if c, ok := top(0).(Integer); ok {
			if c < 0 {
				return vpErr(eRangecheck)
			}
			if c > Integer(n-1) {
				return vpErr(eStackunderflow, eRangecheck)
			}
			return vpSpec{pop: 1, push: append([]Object{}, st[n-1-int(c):n-1]...)}
		}
		if n < 2 {
			return vpErr(eStackunderflow, eTypecheck)
		}
		switch src := top(1).(type) {
		case Array:
			dst, ok := top(0).(Array)
			if !ok {
				return vpErr(eTypecheck)
			}
			if len(dst) < len(src) {
				return vpErr(eRangecheck)
			}
			want := append([]Object{}, src...)
			return vpSpec{pop: 2, push: []Object{dst[:len(src)]}, post: func(*Interpreter) bool {
				for i := range want {
					if !vpSameObj(dst[i], want[i]) {
						return false
					}
				}
				return true
			}}
		case String:
			dst, ok := top(0).(String)
			if !ok {
				return vpErr(eTypecheck)
			}
			if len(dst) < len(src) {
				return vpErr(eRangecheck)
			}
			want := append([]byte{}, src...)
			return vpSpec{pop: 2, push: []Object{dst[:len(src)]}, post: func(*Interpreter) bool {
				for i := range want {
					if dst[i] != want[i] {
						return false
					}
				}
				return true
			}}
		case Dict:
			dst, ok := top(0).(Dict)
			if !ok {
				return vpErr(eTypecheck)
			}
			return vpSpec{pop: 2, push: []Object{dst}, post: func(*Interpreter) bool {
				for k, v := range src {
					if w, ok := dst[k]; !ok || !vpSameObj(v, w) {
						return false
					}
				}
				return true
			}}
		}
		return vpErr(eTypecheck)
	case "roll":
		if n < 2 {
			return vpErr(eStackunderflow)
		}
		cnt, ok1 := top(1).(Integer)
		j, ok2 := top(0).(Integer)
		badRange := ok1 && (cnt < 0 || cnt > Integer(n-2))
		if (!ok1 || !ok2) && badRange {
			return vpErr(eTypecheck, eRangecheck, eStackunderflow)
		}
		if !ok1 || !ok2 {
			return vpErr(eTypecheck)
		}
		if cnt < 0 {
			return vpErr(eRangecheck)
		}
		if cnt > Integer(n-2) {
			return vpErr(eStackunderflow, eRangecheck)
		}
		if cnt == 0 {
			return vpSpec{pop: 2}
		}
		c := int(cnt)
		// PLRM: roll the top c objects by j positions towards the top
		jj := int(((j % cnt) + cnt) % cnt)
		seg := st[n-2-c : n-2]
		out := make([]Object, c)
		for i := 0; i < c; i++ {
			out[(i+jj)%c] = seg[i]
		}
		return vpSpec{pop: 2 + c, push: out}
	case "cleartomark":
		for i := n - 1; i >= 0; i-- {
			if _, ok := st[i].(mark); ok {
				return vpSpec{pop: n - i}
			}
		}
		return vpErr(eUnmatchedmark)
	case "]":
		for i := n - 1; i >= 0; i-- {
			if _, ok := st[i].(mark); ok {
				want := append([]Object{}, st[i+1:]...)
				return vpSpec{pop: n - i, skip: false, push: nil, post: func(intp *Interpreter) bool {
					if len(intp.Stack) != i+1 {
						return false
					}
					a, ok := intp.Stack[i].(Array)
					if !ok || len(a) != len(want) {
						return false
					}
					for k := range want {
						if !vpSameObj(a[k], want[k]) {
							return false
						}
					}
					return true
				}}
			}
		}
		return vpErr(eUnmatchedmark)
	case "add", "sub", "mul":
		if n < 2 {
			return vpErr(eStackunderflow)
		}
		if !vpIsNum(top(0)) || !vpIsNum(top(1)) {
			return vpErr(eTypecheck)
		}
		a, aInt := top(1).(Integer)
		b, bInt := top(0).(Integer)
		if !aInt || !bInt {
			x, y := vpAsReal(top(1)), vpAsReal(top(0))
			switch name {
			case "add":
				return vpSpec{pop: 2, push: []Object{x + y}}
			case "sub":
				return vpSpec{pop: 2, push: []Object{x - y}}
			}
			return vpSpec{pop: 2, push: []Object{x * y}}
		}
		switch name {
		case "add":
			if vpAddOverflows(a, b) {
				return vpSpec{pop: 2, push: []Object{Real(a) + Real(b)}}
			}
			return vpSpec{pop: 2, push: []Object{a + b}}
		case "sub":
			if vpSubOverflows(a, b) {
				return vpSpec{pop: 2, push: []Object{Real(a) - Real(b)}}
			}
			return vpSpec{pop: 2, push: []Object{a - b}}
		}
		return vpSpec{skip: true} // mul: see VP_C02_mul
	case "abs":
		if n < 1 {
			return vpErr(eStackunderflow)
		}
		switch x := top(0).(type) {
		case Integer:
			if x == math.MinInt64 {
				return vpSpec{pop: 1, push: []Object{-Real(x)}}
			}
			if x < 0 {
				return vpSpec{pop: 1, push: []Object{-x}}
			}
			return vpSpec{pop: 1, push: []Object{x}}
		case Real:
			if x < 0 {
				return vpSpec{pop: 1, push: []Object{-x}}
			}
			return vpSpec{pop: 1, push: []Object{x}}
		}
		return vpErr(eTypecheck)
	case "and", "or":
		if n < 2 {
			return vpErr(eStackunderflow)
		}
		switch a := top(1).(type) {
		case Boolean:
			b, ok := top(0).(Boolean)
			if !ok {
				return vpErr(eTypecheck)
			}
			if name == "and" {
				return vpSpec{pop: 2, push: []Object{Boolean(bool(a) && bool(b))}}
			}
			return vpSpec{pop: 2, push: []Object{Boolean(bool(a) || bool(b))}}
		case Integer:
			b, ok := top(0).(Integer)
			if !ok {
				return vpErr(eTypecheck)
			}
			// bitwise, written bit by bit on the two's complement representation
			var r Integer
			for i := 0; i < 64; i++ {
				x := (uint64(a) >> uint(i)) & 1
				y := (uint64(b) >> uint(i)) & 1
				var z uint64
				if name == "and" {
					if x == 1 && y == 1 {
						z = 1
					}
				} else {
					z = 1
					if x == 0 && y == 0 {
						z = 0
					}
				}
				r = Integer(uint64(r) + z<<uint(i))
			}
			return vpSpec{pop: 2, push: []Object{r}}
		}
		return vpErr(eTypecheck)
	case "not":
		if n < 1 {
			return vpErr(eStackunderflow)
		}
		switch a := top(0).(type) {
		case Boolean:
			return vpSpec{pop: 1, push: []Object{Boolean(!bool(a))}}
		case Integer:
			return vpSpec{pop: 1, push: []Object{-a - 1}}
		}
		return vpErr(eTypecheck)
	case "eq", "ne":
		if n < 2 {
			return vpErr(eStackunderflow)
		}
		res, known := vpSpecEqual(top(1), top(0))
		if !known {
			return vpSpec{skip: true}
		}
		if name == "ne" {
			res = !res
		}
		return vpSpec{pop: 2, push: []Object{Boolean(res)}}
	case "length":
		if n < 1 {
			return vpErr(eStackunderflow)
		}
		switch x := top(0).(type) {
		case Array:
			return vpSpec{pop: 1, push: []Object{Integer(len(x))}}
		case Procedure:
			return vpSpec{pop: 1, push: []Object{Integer(len(x))}}
		case String:
			return vpSpec{pop: 1, push: []Object{Integer(len(x))}}
		case Dict:
			return vpSpec{pop: 1, push: []Object{Integer(len(x))}}
		case Name:
			return vpSpec{pop: 1, push: []Object{Integer(len(x))}}
		case Operator:
			return vpSpec{skip: true}
		}
		return vpErr(eTypecheck)
	case "get":
		if n < 2 {
			return vpErr(eStackunderflow)
		}
		switch c := top(1).(type) {
		case Array:
			return vpGetIndexed(len(c), top(0), func(i int) Object { return c[i] })
		case Procedure:
			return vpGetIndexed(len(c), top(0), func(i int) Object { return c[i] })
		case String:
			return vpGetIndexed(len(c), top(0), func(i int) Object { return Integer(c[i]) })
		case Dict:
			k, ok := top(0).(Name)
			if !ok {
				return vpSpec{skip: true} // PLRM allows any key type; only names are supported
			}
			v, ok := c[k]
			if !ok {
				return vpErr(eUndefined)
			}
			return vpSpec{pop: 2, push: []Object{v}}
		}
		return vpErr(eTypecheck)
	case "put":
		if n < 3 {
			return vpErr(eStackunderflow)
		}
		val := top(0)
		switch c := top(2).(type) {
		case Array:
			return vpPutIndexed(len(c), top(1), func(i int) bool { return vpSameObj(c[i], val) })
		case Procedure:
			return vpPutIndexed(len(c), top(1), func(i int) bool { return vpSameObj(c[i], val) })
		case String:
			iv, isInt := val.(Integer)
			sp := vpPutIndexed(len(c), top(1), func(i int) bool { return c[i] == byte(iv) })
			if len(sp.errs) == 0 && !isInt {
				return vpErr(eTypecheck)
			}
			if len(sp.errs) == 0 && (iv < 0 || iv > 255) {
				return vpSpec{skip: true} // rangecheck per PLRM; the implementation truncates (not asserted)
			}
			return sp
		case Dict:
			k, ok := top(1).(Name)
			if !ok {
				return vpSpec{skip: true}
			}
			return vpSpec{pop: 3, post: func(*Interpreter) bool { w, ok := c[k]; return ok && vpSameObj(w, val) }}
		}
		return vpErr(eTypecheck)
	case "getinterval":
		if n < 3 {
			return vpErr(eStackunderflow)
		}
		var ln int
		switch c := top(2).(type) {
		case Array:
			ln = len(c)
		case String:
			ln = len(c)
		default:
			return vpErr(eTypecheck)
		}
		idx, ok1 := top(1).(Integer)
		cnt, ok2 := top(0).(Integer)
		var errs []Name
		if !ok1 || !ok2 {
			errs = append(errs, eTypecheck)
		}
		// PLRM: index must be a valid index of the original object, count >= 0, index+count <= length
		if (ok1 && (idx < 0 || idx >= Integer(ln))) || (ok2 && cnt < 0) || (ok1 && ok2 && idx >= 0 && idx < Integer(ln) && cnt > Integer(ln)-idx) {
			errs = append(errs, eRangecheck)
		}
		if len(errs) > 0 {
			return vpErr(errs...)
		}
		switch c := top(2).(type) {
		case Array:
			return vpSpec{pop: 3, push: []Object{c[idx : idx+cnt]}}
		case String:
			return vpSpec{pop: 3, push: []Object{c[idx : idx+cnt]}}
		}
	case "putinterval":
		if n < 3 {
			return vpErr(eStackunderflow)
		}
		idx, ok := top(1).(Integer)
		var errs []Name
		dstLen, srcLen, typesOK := 0, 0, ok
		switch dst := top(2).(type) {
		case Array:
			dstLen = len(dst)
			if src, ok2 := top(0).(Array); ok2 {
				srcLen = len(src)
			} else {
				typesOK = false
			}
		case String:
			dstLen = len(dst)
			if src, ok2 := top(0).(String); ok2 {
				srcLen = len(src)
			} else {
				typesOK = false
			}
		default:
			typesOK = false
		}
		if !typesOK {
			errs = append(errs, eTypecheck)
		}
		if ok && (idx < 0 || (typesOK && (idx > Integer(dstLen) || Integer(srcLen) > Integer(dstLen)-idx))) {
			errs = append(errs, eRangecheck)
		}
		if len(errs) > 0 {
			return vpErr(errs...)
		}
		switch dst := top(2).(type) {
		case Array:
			want := append([]Object{}, top(0).(Array)...)
			return vpSpec{pop: 3, post: func(*Interpreter) bool {
				for i := range want {
					if !vpSameObj(dst[int(idx)+i], want[i]) {
						return false
					}
				}
				return true
			}}
		case String:
			want := append([]byte{}, top(0).(String)...)
			return vpSpec{pop: 3, post: func(*Interpreter) bool {
				for i := range want {
					if dst[int(idx)+i] != want[i] {
						return false
					}
				}
				return true
			}}
		}
	case "array", "string", "dict":
		if n < 1 {
			return vpErr(eStackunderflow)
		}
		sz, ok := top(0).(Integer)
		if !ok {
			return vpErr(eTypecheck)
		}
		if sz < 0 {
			return vpErr(eRangecheck)
		}
		if sz > 65536 {
			return vpErr(eLimitcheck, eRangecheck, eVMerror)
		}
		return vpSpec{pop: 1, post: func(intp *Interpreter) bool {
			if len(intp.Stack) != n {
				return false
			}
			switch r := intp.Stack[n-1].(type) {
			case Array:
				if name != "array" || Integer(len(r)) != sz {
					return false
				}
				for _, e := range r {
					if e != nil {
						return false
					}
				}
				return true
			case String:
				if name != "string" || Integer(len(r)) != sz {
					return false
				}
				for _, e := range r {
					if e != 0 {
						return false
					}
				}
				return true
			case Dict:
				return name == "dict" && len(r) == 0
			}
			return false
		}}
	case "type":
		if n < 1 {
			return vpErr(eStackunderflow)
		}
		var t Name
		switch top(0).(type) {
		case Integer:
			t = "integertype"
		case Real:
			t = "realtype"
		case Boolean:
			t = "booleantype"
		case Name, Operator:
			t = "nametype"
		case String:
			t = "stringtype"
		case Array, Procedure:
			t = "arraytype"
		case Dict:
			t = "dicttype"
		case mark:
			t = "marktype"
		case builtin:
			t = "operatortype"
		case nil:
			t = "filetype"
		default:
			return vpSpec{skip: true}
		}
		// PLRM: type replaces its operand
		return vpSpec{pop: 1, push: []Object{t}}
	case "def":
		if n < 2 {
			return vpErr(eStackunderflow)
		}
		k, ok := top(1).(Name)
		if !ok {
			return vpSpec{skip: true}
		}
		val := top(0)
		cur := intp.DictStack[len(intp.DictStack)-1]
		return vpSpec{pop: 2, post: func(*Interpreter) bool { w, ok := cur[k]; return ok && vpSameObj(w, val) }}
	case "load", "where", "known":
		if n < 1 {
			return vpErr(eStackunderflow)
		}
		if name == "known" {
			if n < 2 {
				return vpErr(eStackunderflow)
			}
			d, ok := top(1).(Dict)
			if !ok {
				return vpErr(eTypecheck)
			}
			k, ok := top(0).(Name)
			if !ok {
				return vpSpec{skip: true}
			}
			_, has := d[k]
			return vpSpec{pop: 2, push: []Object{Boolean(has)}}
		}
		k, ok := top(0).(Name)
		if !ok {
			return vpSpec{skip: true}
		}
		// top-down search of the dictionary stack
		for lvl := len(intp.DictStack); lvl > 0; lvl-- {
			d := intp.DictStack[lvl-1]
			if v, ok := d[k]; ok {
				if name == "load" {
					return vpSpec{pop: 1, push: []Object{v}}
				}
				return vpSpec{pop: 1, push: []Object{d, Boolean(true)}}
			}
		}
		if name == "load" {
			return vpErr(eUndefined)
		}
		return vpSpec{pop: 1, push: []Object{Boolean(false)}}
	case "begin":
		if n < 1 {
			return vpErr(eStackunderflow)
		}
		d, ok := top(0).(Dict)
		full := len(intp.DictStack) >= 20
		if !ok && full {
			return vpErr(eTypecheck, eDictstackoverflow)
		}
		if !ok {
			return vpErr(eTypecheck)
		}
		if full {
			return vpErr(eDictstackoverflow)
		}
		depth := len(intp.DictStack)
		return vpSpec{pop: 1, post: func(intp *Interpreter) bool {
			return len(intp.DictStack) == depth+1 && vpSameRef(intp.DictStack[depth], d)
		}}
	case "end":
		depth := len(intp.DictStack)
		if depth <= 2 {
			return vpErr(eDictstackunderflow)
		}
		return vpSpec{post: func(intp *Interpreter) bool { return len(intp.DictStack) == depth-1 }}
	case "definefont":
		if n < 2 {
			return vpErr(eStackunderflow)
		}
		k, ok1 := top(1).(Name)
		f, ok2 := top(0).(Dict)
		if !ok1 {
			return vpSpec{skip: true}
		}
		if !ok2 {
			return vpErr(eTypecheck, eInvalidfont)
		}
		return vpSpec{pop: 2, push: []Object{f}, post: func(intp *Interpreter) bool {
			w, ok := intp.FontDirectory[k]
			return ok && vpSameObj(w, f)
		}}
	case "findfont":
		if n < 1 {
			return vpErr(eStackunderflow)
		}
		k, ok := top(0).(Name)
		if !ok {
			return vpSpec{skip: true}
		}
		f, ok := intp.FontDirectory[k]
		if !ok {
			return vpErr(eInvalidfont)
		}
		return vpSpec{pop: 1, push: []Object{f}}
	}
	return vpSpec{skip: true}
}

func vpGetIndexed(ln int, sel Object, at func(int) Object) vpSpec {
	i, ok := sel.(Integer)
	if !ok {
		return vpErr(eTypecheck)
	}
	if i < 0 || i >= Integer(ln) {
		return vpErr(eRangecheck)
	}
	return vpSpec{pop: 2, push: []Object{at(int(i))}}
}

func vpPutIndexed(ln int, sel Object, stored func(int) bool) vpSpec {
	i, ok := sel.(Integer)
	if !ok {
		return vpErr(eTypecheck)
	}
	if i < 0 || i >= Integer(ln) {
		return vpErr(eRangecheck)
	}
	return vpSpec{pop: 3, post: func(*Interpreter) bool { return stored(int(i)) }}
}

// vpSpecEqual: PLRM eq. known=false where the reference leaves the result open here
// (integers against reals beyond 2^53, composite objects of kinds the implementation rejects).
func vpSpecEqual(a, b Object) (res bool, known bool) {
	switch x := a.(type) {
	case Integer:
		switch y := b.(type) {
		case Integer:
			return x == y, true
		case Real:
			if x > 1<<53 || x < -(1<<53) {
				return false, false
			}
			return Real(x) == y, true
		}
		return false, vpIsSimple(b)
	case Real:
		switch y := b.(type) {
		case Real:
			return x == y, true
		case Integer:
			if y > 1<<53 || y < -(1<<53) {
				return false, false
			}
			return x == Real(y), true
		}
		return false, vpIsSimple(b)
	case String:
		switch y := b.(type) {
		case String:
			return string(x) == string(y), true
		case Name:
			return string(x) == string(y), true
		}
		return false, vpIsSimple(b)
	case Name:
		switch y := b.(type) {
		case String:
			return string(x) == string(y), true
		case Name:
			return x == y, true
		}
		return false, vpIsSimple(b)
	case Dict:
		if y, ok := b.(Dict); ok {
			return vpSameRef(x, y), true
		}
	}
	return false, false
}

func vpIsSimple(o Object) bool {
	switch o.(type) {
	case Integer, Real, String, Name:
		return true
	}
	return false
}

var vpC02Ops = []Name{"pop", "exch", "dup", "count", "mark", "[", "<<", "index", "copy", "roll", "cleartomark", "]",
	"add", "sub", "abs", "and", "or", "not", "eq", "ne", "length", "get", "put", "getinterval", "putinterval",
	"array", "string", "dict", "type", "def", "load", "where", "known", "begin", "end", "currentdict", "definefont", "findfont"}

func VP_C02_ops() {
	vpAllocLimit(4 << 20)
	vpUnwind(80)
	maxLen := vpParam("MAXLEN", 2)
	intp := NewInterpreter()
	first := vpParam("FIRST", 0)
	last := vpParam("LAST", len(vpC02Ops))
	name := vpC02Ops[first+vpChoose("op", last-first)]
	// dictionary stack shapes matter for the dictionary operators only
	dictOp := false
	switch name {
	case "def", "load", "where", "known", "begin", "end", "currentdict":
		dictOp = true
	}
	if dictOp {
		switch vpChoose("dictstack", 3) {
		case 1:
			intp.UserDict["a"] = Integer(1)
			intp.DictStack = append(intp.DictStack, Dict{"a": Integer(7), "undefinedname": Integer(8)})
		case 2:
			for len(intp.DictStack) < maxDictStackDepth {
				intp.DictStack = append(intp.DictStack, Dict{})
			}
		}
	}
	intp.FontDirectory["a"] = Dict{"FontType": Integer(1)}
	D := vpParam("DEPTH", 4)
	switch shape := vpChoose("stackshape", D+2); {
	case shape == 0:
		for i := 0; i < D; i++ {
			intp.Stack = append(intp.Stack, vpObj(intp, "a"+vpDigit(i), vpParam("NEST", 1), maxLen))
		}
		// aliasing: optionally make the top operand the same object as the one below
		switch name {
		case "copy", "putinterval", "eq", "ne", "exch":
			if D >= 2 && vpChoose("alias", 2) == 1 {
				intp.Stack[D-1] = intp.Stack[D-2]
			}
		}
	case shape == 1:
		intp.Stack = append(intp.Stack, vpObj(intp, "a0", vpParam("NEST", 1), maxLen))
	default:
		for i := 0; i < shape-2; i++ {
			intp.Stack = append(intp.Stack, Integer(i+1))
		}
	}
	pre := append([]Object{}, intp.Stack...)
	sp := vpSpecFor(intp, name, pre)
	preDepth := len(intp.DictStack)
	err := intp.executeOne(Operator(name), false)
	if sp.skip {
		vpCover("unspecified-case")
		return
	}
	if len(sp.errs) > 0 {
		vpCover("error-case")
		pe, isPS := err.(*postScriptError)
		vpAssert("fails-with-a-postscript-error", err != nil && isPS)
		if isPS {
			ok := false
			for _, e := range sp.errs {
				if pe.tp == e {
					ok = true
				}
			}
			vpAssert("error-name-as-prescribed", ok)
		}
		return
	}
	vpCover("success-case")
	vpAssert("succeeds", err == nil)
	if err != nil {
		return
	}
	if sp.post != nil {
		vpAssert("effect-as-prescribed", sp.post(intp))
	}
	if name == "]" || name == "array" || name == "string" || name == "dict" {
		return
	}
	want := append(append([]Object{}, pre[:len(pre)-sp.pop]...), sp.push...)
	vpAssert("stack-depth-as-prescribed", len(intp.Stack) == len(want))
	if len(intp.Stack) == len(want) {
		same := true
		for i := range want {
			if !vpSameObj(intp.Stack[i], want[i]) {
				same = false
			}
		}
		vpAssert("stack-contents-as-prescribed", same)
	}
	if name != "begin" && name != "end" {
		vpAssert("dictionary-stack-unchanged", len(intp.DictStack) == preDepth)
	}
}

// C02 mul: integer products are exact, and promoted to real exactly when they overflow.  One
// operand is an arbitrary 64-bit integer, the other comes from a pool of constants (a 64x64
// symbolic multiplication is out of the solver's reach); the reference decides overflow by
// comparing against the exact quotient bounds, not by multiplying.
// the first 11 constants divide cheaply (0, +-1, powers of two, the extremes); the rest need long solver runs
var vpMulPool = []int64{0, 1, -1, 2, -2, 1 << 31, -(1 << 31), 1 << 62, -(1 << 62), math.MaxInt64, math.MinInt64, 3, -3, 7, 10, -10, 1<<32 - 1}

func VP_C02_mul() {
	vpUnwind(40)
	intp := NewInterpreter()
	a := vpInt64("a")
	b := vpMulPool[vpChoose("b", vpParam("POOL", 11))]
	if vpChoose("swap", 2) == 1 {
		intp.Stack = append(intp.Stack, Integer(b), Integer(a))
	} else {
		intp.Stack = append(intp.Stack, Integer(a), Integer(b))
	}
	err := vpRunOp(intp, "mul")
	vpAssert("mul-succeeds", err == nil && len(intp.Stack) == 1)
	if err != nil || len(intp.Stack) != 1 {
		return
	}
	// exact product fits int64  <=>  a within [min/b, max/b] (b != 0), computed on constants
	fits := true
	switch {
	case b == 0:
	case b == -1:
		fits = a != math.MinInt64
	case b > 0:
		fits = a <= math.MaxInt64/b && a >= math.MinInt64/b
	default:
		fits = a >= math.MaxInt64/b && a <= math.MinInt64/b
	}
	if fits {
		vpCover("exact")
		r, ok := intp.Stack[0].(Integer)
		vpAssert("exact-integer-product", ok && int64(r) == a*b)
	} else {
		vpCover("promoted")
		_, ok := intp.Stack[0].(Real)
		vpAssert("overflow-promoted-to-real", ok)
	}
}

package postscript

const vpTwoCMaps = `/CIDInit /ProcSet findresource begin
12 dict begin begincmap /CMapName /Zeta def /WMode 0 def
1 begincodespacerange <00> <FF> endcodespacerange
1 begincidchar <41> 7 endcidchar
endcmap CMapName currentdict /CMap defineresource pop end
12 dict begin begincmap /CMapName /Alpha def /WMode 1 def
1 begincodespacerange <0000> <FFFF> endcodespacerange
endcmap CMapName currentdict /CMap defineresource pop end
end`

// C17 K3: when a file defines several CMaps the same one is returned for every iteration order.
func VP_C17_readcmap() {
	vpMapOrder(true)
	vpUnwind(5000)
	d1, e1 := ReadCMap(&vpReader{data: []byte(vpTwoCMaps), faultAt: -1, name: "a"})
	d2, e2 := ReadCMap(&vpReader{data: []byte(vpTwoCMaps), faultAt: -1, name: "b"})
	vpAssert("reads-succeed", e1 == nil && e2 == nil)
	if e1 != nil || e2 != nil {
		return
	}
	n1, _ := d1["CMapName"].(Name)
	n2, _ := d2["CMapName"].(Name)
	vpAssert("same-cmap-returned", n1 == n2)
	vpAssert("first-by-name", n1 == "Alpha")
	w, _ := d1["WMode"].(Integer)
	vpAssert("its-own-wmode", w == 1)
	vpCover("done")
}

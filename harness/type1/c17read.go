package type1

// Miniature Type 1 fonts as an independent writer would produce them.  Font 0: explicit
// encoding, an accented composite (seac) and a composite whose base is itself a composite.
// Font 1: StandardEncoding with most glyphs absent.  Font 2: two composites on one base of nine
// commands, explicit private-dictionary values with symbolic digits.
// container: 0 clear text (no eexec), 1 hexadecimal eexec (PFA), 2 binary eexec, 3 PFB segments
// around binary eexec.  lenIV: number of lead bytes of every charstring (the /lenIV entry is
// left out for the default 4).  alt: the -| |- | procedure names instead of RD ND NP.
func vpMiniFont(k int) []byte {
	text, _ := vpMiniFontEx(k, 0, 0, false)
	return text
}

func vpEexecEncryptRef16(lead [4]byte, plain []byte) []byte {
	var r uint16 = 55665
	var out []byte
	all := append(append([]byte{}, lead[:]...), plain...)
	for _, p := range all {
		c := p ^ byte(r>>8)
		r = (uint16(c)+r)*52845 + 22719
		out = append(out, c)
	}
	return out
}

func vpMiniFontEx(k, container, lenIV int, alt bool) (font []byte, digits []byte) {
	head := "%!FontType1-1.1: Mini 1.0\n10 dict begin\n/FontInfo 3 dict dup begin\n/version (1.0) def\n/FullName (Mini Font) def\n/Weight (Bold) def\nend def\n/FontName /Mini def\n"
	enc := "/Encoding StandardEncoding def\n"
	if k == 0 {
		enc = "/Encoding 256 array\n0 1 255 {1 index exch /.notdef put} for\ndup 1 /Aacute put\ndup 65 /A put\ndup 194 /acute put\ndup 90 /Zdbl put\nreadonly def\n"
	}
	private := ""
	if k == 2 {
		private = "/BlueShift # def\n/BlueFuzz # def\n/BlueScale 0.05 def\n/StdHW [4#] def\n/LanguageGroup 1 def\n/ExpansionFactor 0.5 def\n"
	}
	rd, nd, np := "RD", "ND", "NP"
	if alt {
		rd, nd, np = "-|", "|-", "|"
	}
	lenIVdef := "/lenIV " + string(rune('0'+lenIV)) + " def\n"
	if lenIV == 4 {
		lenIVdef = "" // the default
	}
	clear := "/PaintType 0 def\n/FontType 1 def\n/FontMatrix [0.001 0 0 0.001 0 0] def\n/FontBBox [0 0 0 0] def\ncurrentdict end\n"
	if container != 0 {
		clear += "currentfile eexec\n"
	}
	mid := clear + "dup /Private 15 dict dup begin\n/" + rd + " {string currentfile exch readstring pop} executeonly def\n/" + nd + " {def} executeonly def\n/" + np + " {put} executeonly def\n" + lenIVdef + "/Subrs 0 array\n/BlueValues [0 10] def\n" + private + "/ForceBold false def\n/password 5839 def\n/MinFeature {16 16} def\n" + nd + "\n2 index /CharStrings 8 dict dup begin\n"
	cs := func(name string, plain []byte) []byte {
		lead := []byte{0x5a, 0x11, 0xc3, 0x7e, 0x09, 0xee}[:lenIV]
		code := vpCharstringEncryptRef(append(append([]byte{}, lead...), plain...))
		var out []byte
		out = append(out, '/')
		out = append(out, name...)
		out = append(out, ' ')
		n := len(code)
		if n >= 10 {
			out = append(out, byte('0'+n/10))
		}
		out = append(out, byte('0'+n%10))
		out = append(out, (" " + rd + " ")...)
		out = append(out, code...)
		out = append(out, (" " + nd + "\n")...)
		return out
	}
	var text []byte
	text = append(text, head...)
	text = append(text, enc...)
	text = append(text, mid...)
	// the '#' place-holders of the private dictionary are symbolic decimal digits
	n := 0
	for i, c := range text {
		if c == '#' {
			if container != 0 {
				// inside an encrypted portion a symbolic byte makes the whole rest of the cipher
				// text symbolic: the digits are symbolic in the clear-text serialisation only
				text[i] = "007"[n%3]
				digits = append(digits, text[i])
			} else {
				d := vpByte("digit" + string(rune('0'+n)))
				vpAssume(d >= '0' && d <= '9')
				text[i] = d
				digits = append(digits, d)
			}
			n++
		}
	}
	text = append(text, cs(".notdef", []byte{139, 239, 13, 14})...)
	if k == 2 {
		// a base glyph of nine path commands (moveto, seven lines, closepath)
		text = append(text, cs("A", []byte{139, 247, 92, 13, 139, 149, 21, 149, 6, 149, 7, 129, 6, 144, 7, 134, 6, 144, 7, 129, 6, 9, 14})...)
		// 0 100 hsbw 20 10 rmoveto 10 vlineto closepath endchar
		text = append(text, cs("grave", []byte{139, 239, 13, 159, 149, 21, 149, 7, 9, 14})...)
		// 0 30 90 65 193 seac
		text = append(text, cs("Agrave", []byte{139, 247, 92, 13, 139, 169, 229, 204, 247, 85, 12, 6})...)
	} else {
		text = append(text, cs("A", []byte{139, 247, 92, 13, 139, 149, 21, 247, 92, 6, 9, 14})...)
	}
	text = append(text, cs("acute", []byte{139, 239, 13, 149, 149, 21, 159, 6, 9, 14})...)
	// 0 50 100 65 194 seac
	text = append(text, cs("Aacute", []byte{139, 247, 92, 13, 139, 189, 239, 204, 247, 86, 12, 6})...)
	if k == 0 {
		// 0 20 30 1 194 seac: the base (code 1) is Aacute
		text = append(text, cs("Zdbl", []byte{139, 247, 92, 13, 139, 159, 169, 140, 247, 86, 12, 6})...)
	}
	text = append(text, "end\nend\nreadonly put\nput\ndup /FontName get exch definefont pop\n"...)
	if container != 0 {
		text = append(text, "mark currentfile closefile\n"...)
		// split at the start of the encrypted portion
		cut := 0
		key := "currentfile eexec\n"
		for i := 0; i+len(key) <= len(text); i++ {
			if string(text[i:i+len(key)]) == key {
				cut = i + len(key)
				break
			}
		}
		clearPart, secret := text[:cut:cut], text[cut:]
		cipher := vpEexecEncryptRef16([4]byte{'x', 'y', 'z', 'w'}, secret)
		trailer := ""
		for i := 0; i < 8; i++ {
			trailer += "0000000000000000000000000000000000000000000000000000000000000000\n"
		}
		trailer += "cleartomark\n"
		switch container {
		case 1:
			const hexd = "0123456789abcdef"
			out := append([]byte{}, clearPart...)
			for i, c := range cipher {
				out = append(out, hexd[c>>4], hexd[c&15])
				if i%32 == 31 {
					out = append(out, '\n')
				}
			}
			out = append(out, '\n')
			text = append(out, trailer...)
		case 2:
			text = append(append(append([]byte{}, clearPart...), cipher...), trailer...)
		default:
			seg := func(kind byte, data []byte) []byte {
				n := len(data)
				return append([]byte{128, kind, byte(n), byte(n >> 8), byte(n >> 16), byte(n >> 24)}, data...)
			}
			out := seg(1, clearPart)
			out = append(out, seg(2, cipher)...)
			out = append(out, seg(1, []byte(trailer))...)
			text = append(out, 128, 3)
		}
	}
	return text, digits
}

func vpSameFont(a, b *Font) bool {
	if len(a.Glyphs) != len(b.Glyphs) || len(a.Encoding) != len(b.Encoding) {
		return false
	}
	for name, g := range a.Glyphs {
		h, ok := b.Glyphs[name]
		if !ok || !vpSameGlyph(g, h) {
			return false
		}
	}
	for i := range a.Encoding {
		if a.Encoding[i] != b.Encoding[i] {
			return false
		}
	}
	return a.FontName == b.FontName && a.FullName == b.FullName && a.Weight == b.Weight
}

// C17 K3b / C18 K3 / C06: reading the same bytes twice gives equal fonts whatever order maps are
// iterated in, the composites are assembled from their parts, and the reader writes no
// package-level state.
func VP_C17_type1_read() {
	vpUnwind(20000)
	vpStepLimit(30000000)
	k := vpChoose("font", vpParam("FONTS", 3))
	// the way the font is written down: container, lenIV, procedure names
	ser := vpChoose("serialisation", vpParam("SERIALISATIONS", 6))
	container := []int{0, 1, 2, 3, 1, 3}[ser]
	lenIV := []int{0, 4, 1, 0, 6, 4}[ser]
	alt := []bool{false, true, false, true, false, false}[ser]
	text, digits := vpMiniFontEx(k, container, lenIV, alt)
	w0 := vpGlobalWrites()
	f1, e1 := Read(&vpReader{data: text, faultAt: -1, name: "a"})
	vpAssert("reads", e1 == nil && f1 != nil)
	if e1 != nil || f1 == nil {
		return
	}
	tries := 1
	if !vpSymbolic() {
		tries = 64
	}
	for t := 0; t < tries; t++ {
		vpMapOrder(true)
		f2, e2 := Read(&vpReader{data: text, mode: 1, faultAt: -1, name: "b"})
		vpMapOrder(false)
		vpAssert("second-read-ok", e2 == nil && f2 != nil)
		if e2 != nil || f2 == nil {
			return
		}
		same := vpSameFont(f1, f2)
		vpAssert("equal-fonts-from-equal-bytes", same)
		if !same {
			break
		}
	}
	vpAssert("monitor:reader-writes-no-package-level-state", vpGlobalWrites() == w0)
	// what the file describes
	if k == 2 {
		a := f1.Glyphs["A"]
		vpAssert("glyph-A-outline", a != nil && a.WidthX == 200 && len(a.Cmds) == 9 && a.Cmds[0].Args[1] == 10 && a.Cmds[1].Args[0] == 10 && a.Cmds[8].Op == OpClosePath)
		// two composites on one base: each has the base outline followed by its own accent
		ac, ag := f1.Glyphs["Aacute"], f1.Glyphs["Agrave"]
		okAcute := ac != nil && ac.WidthX == 200 && len(ac.Cmds) == 12 && a != nil && len(a.Cmds) == 9 &&
			ac.Cmds[9].Op == OpMoveTo && ac.Cmds[9].Args[0] == 60 && ac.Cmds[9].Args[1] == 110 &&
			ac.Cmds[10].Op == OpLineTo && ac.Cmds[10].Args[0] == 80 && ac.Cmds[10].Args[1] == 110 && ac.Cmds[11].Op == OpClosePath
		okGrave := ag != nil && ag.WidthX == 200 && len(ag.Cmds) == 12 &&
			ag.Cmds[9].Op == OpMoveTo && ag.Cmds[9].Args[0] == 50 && ag.Cmds[9].Args[1] == 100 &&
			ag.Cmds[10].Op == OpLineTo && ag.Cmds[10].Args[0] == 50 && ag.Cmds[10].Args[1] == 110 && ag.Cmds[11].Op == OpClosePath
		vpAssert("composites-sharing-a-base-keep-their-own-accents", okAcute && okGrave)
		if okAcute && okGrave {
			for i := 0; i < 9; i++ {
				vpAssert("composite-starts-with-the-base-outline", vpSameOp(ac.Cmds[i], a.Cmds[i]) && vpSameOp(ag.Cmds[i], a.Cmds[i]))
			}
		}
		bs, bf, hw := int32(digits[0]-'0'), int32(digits[1]-'0'), 40+float64(digits[2]-'0')
		p := f1.Private
		vpAssert("explicit-private-values", p != nil && p.BlueShift == bs && p.BlueFuzz == bf && p.BlueScale == 0.05 &&
			p.StdHW == hw && p.ForceBold == false && len(p.BlueValues) == 2)
		vpAssert("info-strings", f1.FontName == "Mini" && f1.FullName == "Mini Font" && f1.Weight == "Bold" && f1.Version == "1.0")
		vpCover("done")
		return
	}
	a := f1.Glyphs["A"]
	vpAssert("glyph-A-outline", a != nil && a.WidthX == 200 && len(a.Cmds) == 3 && a.Cmds[0].Args[1] == 10 && a.Cmds[1].Args[0] == 200)
	ac := f1.Glyphs["Aacute"]
	vpAssert("composite-assembled-from-base-and-accent", ac != nil && ac.WidthX == 200 && len(ac.Cmds) == 6 && ac.Cmds[3].Args[0] == 60 && ac.Cmds[3].Args[1] == 110)
	if k == 0 {
		z := f1.Glyphs["Zdbl"]
		vpAssert("nested-composite-assembled", z != nil && len(z.Cmds) == 9)
		vpAssert("explicit-encoding", f1.Encoding[1] == "Aacute" && f1.Encoding[65] == "A" && f1.Encoding[66] == ".notdef")
	} else {
		vpAssert("standard-encoding-with-absent-glyphs-as-notdef", f1.Encoding[65] == "A" && f1.Encoding[66] == ".notdef" && f1.Encoding[194] == "acute")
	}
	vpAssert("info-strings", f1.FontName == "Mini" && f1.FullName == "Mini Font" && f1.Weight == "Bold" && f1.Version == "1.0")
	vpAssert("private-defaults", f1.Private != nil && f1.Private.BlueShift == 7 && f1.Private.BlueFuzz == 1 && len(f1.Private.BlueValues) == 2)
	vpCover("done")
}

func vpSameOp(a, b GlyphOp) bool {
	if a.Op != b.Op || len(a.Args) != len(b.Args) {
		return false
	}
	for i := range a.Args {
		if a.Args[i] != b.Args[i] {
			return false
		}
	}
	return true
}

package type1

import (
	"seehuhn.de/go/postscript/funit"
	"seehuhn.de/go/postscript/psenc"
)

// Independent reader for the charstrings the writer emits, written from the Adobe Type 1 book
// (chapter 6) with integer arithmetic: numbers in the four encodings, the commands of the
// writer's repertoire.  Returns ok=false on anything else.
type vpRefGlyph struct {
	wx, wy int64
	hstem  [][2]int64 // (position, width) operands as written
	vstem  [][2]int64
	ops    []GlyphOpType
	pts    [][]int64 // absolute coordinates per command
}

func vpRefReadCharstring(code []byte) (g vpRefGlyph, ok bool) {
	var stack []int64
	var x, y int64
	i := 0
	for i < len(code) {
		b := code[i]
		switch {
		case b >= 32 && b <= 246:
			stack = append(stack, int64(b)-139)
			i++
			continue
		case b >= 247 && b <= 250:
			if i+1 >= len(code) {
				return g, false
			}
			stack = append(stack, (int64(b)-247)*256+int64(code[i+1])+108)
			i += 2
			continue
		case b >= 251 && b <= 254:
			if i+1 >= len(code) {
				return g, false
			}
			stack = append(stack, -(int64(b)-251)*256-int64(code[i+1])-108)
			i += 2
			continue
		case b == 255:
			if i+4 >= len(code) {
				return g, false
			}
			v := uint32(code[i+1])<<24 | uint32(code[i+2])<<16 | uint32(code[i+3])<<8 | uint32(code[i+4])
			stack = append(stack, int64(int32(v)))
			i += 5
			continue
		}
		op := int(b)
		i++
		if b == 12 {
			if i >= len(code) {
				return g, false
			}
			op = 1200 + int(code[i])
			i++
		}
		need := map[int]int{13: 2, 1207: 4, 1: 2, 3: 2, 21: 2, 22: 1, 4: 1, 5: 2, 6: 1, 7: 1, 8: 6, 30: 4, 31: 4, 9: 0, 14: 0}
		n, known := need[op]
		if !known || len(stack) != n {
			return g, false
		}
		a := stack
		stack = nil
		move := func(kind GlyphOpType, dx, dy int64) {
			x, y = x+dx, y+dy
			g.ops = append(g.ops, kind)
			g.pts = append(g.pts, []int64{x, y})
		}
		curve := func(d [6]int64) {
			x1, y1 := x+d[0], y+d[1]
			x2, y2 := x1+d[2], y1+d[3]
			x, y = x2+d[4], y2+d[5]
			g.ops = append(g.ops, OpCurveTo)
			g.pts = append(g.pts, []int64{x1, y1, x2, y2, x, y})
		}
		switch op {
		case 13: // hsbw
			x, y = a[0], 0
			g.wx, g.wy = a[1], 0
		case 1207: // sbw
			x, y = a[0], a[1]
			g.wx, g.wy = a[2], a[3]
		case 1:
			g.hstem = append(g.hstem, [2]int64{a[0], a[1]})
		case 3:
			g.vstem = append(g.vstem, [2]int64{a[0], a[1]})
		case 21:
			move(OpMoveTo, a[0], a[1])
		case 22:
			move(OpMoveTo, a[0], 0)
		case 4:
			move(OpMoveTo, 0, a[0])
		case 5:
			move(OpLineTo, a[0], a[1])
		case 6:
			move(OpLineTo, a[0], 0)
		case 7:
			move(OpLineTo, 0, a[0])
		case 8:
			curve([6]int64{a[0], a[1], a[2], a[3], a[4], a[5]})
		case 31: // hvcurveto
			curve([6]int64{a[0], 0, a[1], a[2], 0, a[3]})
		case 30: // vhcurveto
			curve([6]int64{0, a[0], a[1], a[2], a[3], 0})
		case 9:
			g.ops = append(g.ops, OpClosePath)
			g.pts = append(g.pts, nil)
		case 14:
			return g, i == len(code)
		}
	}
	return g, false
}

// C08 K1: the charstring encoder against the independent reader: same outline, advance widths
// and stem hints, for integer coordinates.
func VP_C08_charstring_encoder() {
	vpUnwind(600)
	vpAllocLimit(1 << 20)
	g := vpContourGlyph(vpParam("CMDS", 2))
	wx := int32(vpI8("wx")) // arbitrary int16 widths are decided in C09 K1-metrics and C20 K1
	wy := int32(0)
	if vpParam("VERT", 0) == 1 && vpChoose("vertical", 2) == 1 {
		wy = int32(vpI8("wy"))
	}
	if vpParam("STEMS", 1) == 1 {
		// arbitrary stem edges: all int16 values, so that very wide stems are included
		st := []funit.Int16{funit.Int16(vpInt16("s0")), funit.Int16(vpInt16("s1"))}
		if vpChoose("vstem", 2) == 1 {
			g.VStem = st
		} else {
			g.HStem = st
		}
	}
	code := g.encodeCharString(wx, wy)
	ref, ok := vpRefReadCharstring(code)
	vpAssert("conforming-charstring", ok)
	if !ok {
		return
	}
	vpAssert("advance-width-as-given", ref.wx == int64(wx) && ref.wy == int64(wy))
	stemsOK := len(ref.hstem) == len(g.HStem)/2 && len(ref.vstem) == len(g.VStem)/2
	if stemsOK {
		for i := range ref.hstem {
			lo, hi := int64(g.HStem[2*i]), int64(g.HStem[2*i+1])
			if ref.hstem[i][0] != lo || ref.hstem[i][1] != hi-lo {
				stemsOK = false
			}
		}
		for i := range ref.vstem {
			lo, hi := int64(g.VStem[2*i]), int64(g.VStem[2*i+1])
			if ref.vstem[i][0] != lo || ref.vstem[i][1] != hi-lo {
				stemsOK = false
			}
		}
	}
	vpAssert("stem-hints-as-given", stemsOK)
	same := len(ref.ops) == len(g.Cmds)
	if same {
		for i, cmd := range g.Cmds {
			if ref.ops[i] != cmd.Op || len(ref.pts[i]) != len(cmd.Args) {
				same = false
				break
			}
			for k, a := range cmd.Args {
				if float64(ref.pts[i][k]) != a {
					same = false
				}
			}
		}
	}
	vpAssert("outline-as-given", same)
	vpCover("done")
}

// C08 K5 / C09 K3: the StandardEncoding shortcut.  "/Encoding StandardEncoding def" reads back
// as: code i -> the standard name if the font has that glyph, else .notdef.  The shortcut may
// therefore only be taken when that reading gives the font's own encoding back.
func VP_C09_encoding_shortcut() {
	vpUnwind(2000)
	glyphs := map[string]bool{".notdef": true}
	pool := []string{"A", "B", "space"}
	codes := []int{65, 66, 32}
	for k, n := range pool {
		if vpChoose("has"+vpDigitS(k), 2) == 1 {
			glyphs[n] = true
		}
	}
	enc := make([]string, 256)
	for i := range enc {
		enc[i] = ".notdef"
	}
	for k, c := range codes {
		switch vpChoose("enc"+vpDigitS(k), 3) {
		case 1:
			enc[c] = pool[k]
		case 2:
			enc[c] = "custom" + vpDigitS(k)
			glyphs[enc[c]] = true
		}
	}
	if vpChoose("zero", 2) == 1 {
		enc[0] = "customzero"
		glyphs["customzero"] = true
	}
	text := writeEncoding(enc)
	if text == "/Encoding StandardEncoding def\n" {
		vpCover("shortcut")
		ok := true
		for i := 0; i < 256; i++ {
			back := psenc.StandardEncoding[i]
			if !glyphs[back] {
				back = ".notdef"
			}
			// the reader maps codes of absent glyphs to .notdef whatever the file says, so that is
			// what "the same encoding" means for an encoding naming absent glyphs
			want := enc[i]
			if !glyphs[want] {
				want = ".notdef"
			}
			if back != want {
				ok = false
			}
		}
		vpAssert("standard-encoding-shortcut-reads-back-as-the-same-encoding", ok)
	} else {
		vpCover("explicit")
		// every assigned code is written out
		n := 0
		for _, e := range enc {
			if e != ".notdef" {
				n++
			}
		}
		puts := 0
		for i := 0; i+3 < len(text); i++ {
			if text[i] == ' ' && text[i+1] == 'p' && text[i+2] == 'u' && text[i+3] == 't' {
				puts++
			}
		}
		vpAssert("explicit-array-has-one-put-per-assigned-code", puts == n+1)
	}
}

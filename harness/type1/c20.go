package type1

// C20 K1: every int32 is written in the number format proper to its range and the real
// charstring decoder pushes exactly that integer.
func VP_C20_int() {
	x := vpInt32("x")
	enc := appendInt(nil, x)
	// format chosen by range (Adobe Type 1 Font Format, section 6.2)
	switch {
	case x >= -107 && x <= 107:
		vpCover("one-byte")
		vpAssert("one-byte-form", len(enc) == 1 && enc[0] >= 32 && enc[0] <= 246)
	case x >= 108 && x <= 1131:
		vpCover("two-byte-positive")
		vpAssert("two-byte-positive-form", len(enc) == 2 && enc[0] >= 247 && enc[0] <= 250)
	case x >= -1131 && x <= -108:
		vpCover("two-byte-negative")
		vpAssert("two-byte-negative-form", len(enc) == 2 && enc[0] >= 251 && enc[0] <= 254)
	default:
		vpCover("five-byte")
		vpAssert("five-byte-form", len(enc) == 5 && enc[0] == 255)
	}
	// independent reading of the encoded number (spec formulas on integers)
	var val int64
	switch len(enc) {
	case 1:
		val = int64(enc[0]) - 139
	case 2:
		if enc[0] <= 250 {
			val = (int64(enc[0])-247)*256 + int64(enc[1]) + 108
		} else {
			val = -(int64(enc[0])-251)*256 - int64(enc[1]) - 108
		}
	case 5:
		val = int64(int32(uint32(enc[1])<<24 | uint32(enc[2])<<16 | uint32(enc[3])<<8 | uint32(enc[4])))
	}
	vpAssert("spec-decoding-gives-x", val == int64(x))

	// the real decoder: x as advance width (hsbw) and as a coordinate (rmoveto)
	y := vpInt32("y")
	code := appendInt(nil, 0)
	code = appendInt(code, x)
	code = appendOp(code, t1hsbw)
	code = appendInt(code, y)
	code = appendInt(code, x)
	code = appendOp(code, t1rmoveto)
	code = appendOp(code, t1endchar)
	info := &decodeInfo{}
	g, err := info.decodeCharString(code, "g")
	vpAssert("decodes-without-error", err == nil)
	if err != nil {
		return
	}
	vpAssert("width-exact", g.WidthX == float64(x))
	vpAssert("one-command", len(g.Cmds) == 1)
	if len(g.Cmds) != 1 {
		return
	}
	vpAssert("coordinate-exact", g.Cmds[0].Op == OpMoveTo && g.Cmds[0].Args[0] == float64(y) && g.Cmds[0].Args[1] == float64(x))
	vpCover("decoded")
}

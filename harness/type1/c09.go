package type1

import "seehuhn.de/go/postscript/funit"

func vpI16(tag string) float64 { return float64(vpInt16(tag)) }

// vpI8: integer coordinate in -53..53: every delta then fits the one-byte number format, so the
// encoder's per-number format choice does not multiply the paths (the number formats themselves
// are decided for all int32 in C20 K1).  With WIDE=1 the range is -128..127 (two formats).
func vpI8(tag string) float64 {
	v := vpInt16(tag)
	if vpParam("WIDE", 0) == 1 {
		vpAssume(v >= -128 && v <= 127)
	} else {
		vpAssume(v >= -53 && v <= 53)
	}
	return float64(v)
}

// vpContourGlyph builds a glyph of well-formed contours with integer coordinates (all int16).
func vpContourGlyph(maxCmds int) *Glyph {
	g := &Glyph{}
	n := vpChoose("cmds", maxCmds+1)
	open := false
	for i := 0; i < n; i++ {
		t := "c" + vpDigitS(i)
		k := vpChoose(t+".op", 4)
		if !open {
			k = 0 // a contour starts with a move
		}
		switch k {
		case 0:
			if open {
				g.ClosePath()
			}
			g.MoveTo(vpI8(t+".x"), vpI8(t+".y"))
			open = true
		case 1:
			g.LineTo(vpI8(t+".x"), vpI8(t+".y"))
		case 2:
			g.CurveTo(vpI8(t+".a"), vpI8(t+".b"), vpI8(t+".c"), vpI8(t+".d"), vpI8(t+".x"), vpI8(t+".y"))
		default:
			g.ClosePath()
			open = false
		}
	}
	if open {
		g.ClosePath()
	}
	return g
}

func vpSameGlyph(a, b *Glyph) bool {
	if len(a.Cmds) != len(b.Cmds) || len(a.HStem) != len(b.HStem) || len(a.VStem) != len(b.VStem) {
		return false
	}
	same := a.WidthX == b.WidthX && a.WidthY == b.WidthY
	for i := range a.Cmds {
		if a.Cmds[i].Op != b.Cmds[i].Op || len(a.Cmds[i].Args) != len(b.Cmds[i].Args) {
			return false
		}
		for k := range a.Cmds[i].Args {
			if a.Cmds[i].Args[k] != b.Cmds[i].Args[k] {
				same = false
			}
		}
	}
	for i := range a.HStem {
		if a.HStem[i] != b.HStem[i] {
			same = false
		}
	}
	for i := range a.VStem {
		if a.VStem[i] != b.VStem[i] {
			same = false
		}
	}
	return same
}

// C09 K1 (= C10 coordinates/widths for integers): the real encoder followed by the real decoder is
// the identity on glyphs with integer coordinates, integer widths and stem hints.
func VP_C09_charstring_roundtrip() {
	vpUnwind(400)
	vpAllocLimit(1 << 20)
	g := vpContourGlyph(vpParam("CMDS", 3))
	g.WidthX = vpI16("wx")
	wy := int32(0)
	if vpParam("VERT", 1) == 1 && vpChoose("vertical", 2) == 1 {
		wy = int32(vpInt16("wy"))
		g.WidthY = float64(wy)
	}
	if vpParam("STEMS", 1) == 1 && vpChoose("stems", 2) == 1 {
		g.HStem = []funit.Int16{funit.Int16(vpI8("h0")), funit.Int16(vpI8("h1"))}
		g.VStem = []funit.Int16{funit.Int16(vpI8("v0")), funit.Int16(vpI8("v1"))}
	}
	code := g.encodeCharString(int32(g.WidthX), wy)
	info := &decodeInfo{}
	back, err := info.decodeCharString(code, "g")
	vpAssert("decodes", err == nil && back != nil)
	if err != nil || back == nil {
		return
	}
	vpAssert("same-glyph", vpSameGlyph(g, back))
	vpCover("done")
}

// reference charstring decryption (key 4330), written with 32-bit arithmetic
func vpCharstringDecryptRef(cipher []byte, skip int) []byte {
	r := uint32(4330)
	var out []byte
	for i, c := range cipher {
		p := byte(uint32(c) ^ (r >> 8))
		r = ((uint32(c) + r) * 52845 + 22719) & 0xffff
		if i >= skip {
			out = append(out, p)
		}
	}
	return out
}

func vpCharstringEncryptRef(plain []byte) []byte {
	r := uint32(4330)
	var out []byte
	for _, p := range plain {
		c := byte(uint32(p) ^ (r >> 8))
		r = ((uint32(c) + r) * 52845 + 22719) & 0xffff
		out = append(out, c)
	}
	return out
}

func vpSameBytes(a, b []byte) bool {
	if len(a) != len(b) {
		return false
	}
	same := true
	for i := range a {
		if a[i] != b[i] {
			same = false
		}
	}
	return same
}

// C08 K2 / C06 K3 / C09: charstring obfuscation against the Type 1 reference cipher.
func VP_C08_obfuscation() {
	n := vpChoose("len", vpParam("N", 4)+1)
	plain := vpBytes("p", n)
	iv := vpBytes("iv", 4)
	obf := obfuscateCharstring(plain, iv)
	vpAssert("writer-output-decrypts-to-plain", vpSameBytes(vpCharstringDecryptRef(obf, 4), plain))
	vpAssert("lead-bytes-are-the-encrypted-iv", len(obf) == n+4)
	vpAssert("reader-inverts-writer", vpSameBytes(deobfuscateCharstring(obf, 4), plain))
	// any lenIV >= 0: reference encryption of lead||plain is decoded by the reader
	lenIV := vpChoose("lenIV", 7)
	lead := vpBytes("lead", lenIV)
	cipher := vpCharstringEncryptRef(append(append([]byte{}, lead...), plain...))
	vpAssert("reader-handles-every-lenIV", vpSameBytes(deobfuscateCharstring(cipher, lenIV), plain))
	vpCover("done")
}

func vpEexecDecryptRef32(cipher []byte) []byte {
	r := uint32(55665)
	var out []byte
	for _, c := range cipher {
		out = append(out, byte(uint32(c)^(r>>8)))
		r = ((uint32(c) + r) * 52845 + 22719) & 0xffff
	}
	return out
}

func vpHexDigitVal(c byte) (byte, bool) {
	switch {
	case c >= '0' && c <= '9':
		return c - '0', true
	case c >= 'a' && c <= 'f':
		return c - 'a' + 10, true
	case c >= 'A' && c <= 'F':
		return c - 'A' + 10, true
	}
	return 0, false
}

// C08 K3: the eexec and hex writers against reference decoders, payloads that straddle the
// 512-byte buffer and the 78-column line.
func VP_C08_eexec_hex_writers() {
	vpUnwind(5000)
	fill := []int{0, 36, 37, 506, 507, 508}[vpChoose("filler", vpParam("FILLERS", 6))]
	payload := make([]byte, fill)
	for i := range payload {
		payload[i] = byte(i*7 + 3)
	}
	payload = append(payload, vpBytes("p", vpParam("N", 3))...)
	under := &vpWriter{failAt: -1}
	hexForm := vpChoose("hex", 2) == 1
	var h *hexWriter
	var e *eexecWriter
	var err error
	if hexForm {
		h = &hexWriter{w: under}
		e, err = newEExecWriter(h)
	} else {
		e, err = newEExecWriter(under)
	}
	vpAssert("writer-created", err == nil)
	split := vpChoose("split", 2) * (len(payload) / 2)
	_, e1 := e.Write(payload[:split])
	_, e2 := e.Write(payload[split:])
	e3 := e.Close()
	var e4 error
	if hexForm {
		e4 = h.Close()
	}
	vpAssert("no-errors", e1 == nil && e2 == nil && e3 == nil && e4 == nil)
	cipher := under.out
	if hexForm {
		// de-hex: pairs of digits, white space ignored; lines at most 79 characters
		var raw []byte
		var hi byte
		have := false
		col := 0
		okHex := true
		for _, c := range cipher {
			if c == '\n' {
				col = 0
				continue
			}
			col++
			if col > 78 {
				okHex = false
			}
			v, ok := vpHexDigitVal(c)
			if !ok {
				okHex = false
				continue
			}
			if have {
				raw = append(raw, hi*16+v)
				have = false
			} else {
				hi, have = v, true
			}
		}
		vpAssert("hex-output-well-formed", okHex && !have)
		cipher = raw
	} else if len(cipher) >= 4 {
		first := cipher[0]
		vpAssert("binary-ciphertext-starts-non-blank", first != ' ' && first != '\t' && first != '\r' && first != '\n')
		allHex := true
		for _, c := range cipher[:4] {
			if _, ok := vpHexDigitVal(c); !ok {
				allHex = false
			}
		}
		vpAssert("binary-ciphertext-not-all-hex-in-first-four", !allHex)
	}
	plain := vpEexecDecryptRef32(cipher)
	vpAssert("decrypts-to-four-lead-bytes-plus-payload", len(plain) == len(payload)+4 && vpSameBytes(plain[4:], payload))
	vpCover("done")
}

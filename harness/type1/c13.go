package type1

import "io"

// C13 K2: a failing underlying writer always surfaces as an error from Write or Close of the
// hex and eexec writers (alone and stacked as in the PFA format).
func VP_C13_writer_fault() {
	vpUnwind(3000)
	under := &vpWriter{failAt: vpChoose("failAt", vpParam("FAILS", 4)), short: vpChoose("short", 2) == 1, once: vpChoose("once", 2) == 1}
	var top io.Writer
	var closers []io.Closer
	switch vpChoose("stack", 3) {
	case 0:
		h := &hexWriter{w: under}
		top, closers = h, []io.Closer{h}
	case 1:
		e, err := newEExecWriter(under)
		if err != nil {
			vpCover("error-reported")
			return
		}
		top, closers = e, []io.Closer{e}
	default:
		h := &hexWriter{w: under}
		e, err := newEExecWriter(h)
		if err != nil {
			vpCover("error-reported")
			return
		}
		top, closers = e, []io.Closer{e, h}
	}
	// payload: big enough to force intermediate flushes (hex lines of 78 chars, 512-byte eexec buffer)
	sizes := []int{0, 1, 40, 520, 1100}
	n := sizes[vpChoose("size", vpParam("SIZES", 4))]
	data := make([]byte, n)
	if n > 0 {
		data[n-1] = vpByte("last")
	}
	var firstErr error
	chunk := 1 + vpChoose("chunk", 2)*600
	for off := 0; off < n && firstErr == nil; off += chunk {
		end := off + chunk
		if end > n {
			end = n
		}
		_, firstErr = top.Write(data[off:end])
	}
	for _, c := range closers {
		if firstErr == nil {
			firstErr = c.Close()
		}
	}
	failed := under.calls > under.failAt
	if failed {
		vpCover("error-reported")
		vpAssert("writer-fault-reported", firstErr != nil)
	} else {
		vpCover("no-fault-hit")
		vpAssert("no-error-without-fault", firstErr == nil)
	}
}

// C12 K3 / C06 K4: sniffing the first byte does not lose or duplicate input, for seekable and
// non-seekable sources and every caller buffer size.
type vpSeekReader struct {
	vpReader
	seeks int
}

func (r *vpSeekReader) Seek(offset int64, whence int) (int64, error) {
	r.seeks++
	switch whence {
	case io.SeekStart:
		r.pos = int(offset)
	case io.SeekCurrent:
		r.pos += int(offset)
	default:
		r.pos = len(r.data) + int(offset)
	}
	return int64(r.pos), nil
}

func VP_C12_peek() {
	vpUnwind(200)
	n := vpChoose("len", vpParam("N", 4)+1)
	data := vpBytes("d", n)
	mode := vpChoose("mode", 2)
	var src io.Reader
	if vpChoose("seekable", 2) == 1 {
		src = &vpSeekReader{vpReader: vpReader{data: data, mode: mode, faultAt: -1, name: "s"}}
	} else {
		src = &vpReader{data: data, mode: mode, faultAt: -1, name: "s"}
	}
	head, r, err := peek(src, 1)
	vpAssert("peek-ok", err == nil)
	if err != nil {
		return
	}
	if n == 0 {
		vpAssert("empty-input-empty-head", len(head) == 0)
	} else {
		vpAssert("head-is-first-byte", len(head) == 1 && head[0] == data[0])
	}
	var got []byte
	var rerr error
	for k := 0; k < 2*n+3 && rerr == nil; k++ {
		buf := make([]byte, 1+vpChoose("buf", 3))
		var m int
		m, rerr = r.Read(buf)
		got = append(got, buf[:m]...)
	}
	vpAssert("ends-with-EOF", rerr == io.EOF)
	same := len(got) == n
	if same {
		for i := range got {
			if got[i] != data[i] {
				same = false
			}
		}
	}
	vpAssert("all-input-delivered-once", same)
	vpCover("done")
}

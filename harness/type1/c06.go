package type1

import "seehuhn.de/go/postscript/funit"

// vpCS builds a conforming charstring command by command and, in parallel, the glyph the Adobe
// Type 1 book says it describes (absolute coordinates, integer arithmetic).
type vpCS struct {
	code   []byte
	x, y   int64
	lsbx   int64
	lsby   int64
	cmds   []GlyphOpType
	pts    [][]int64
	hstem  []int64
	vstem  []int64
	wx, wy int64
	open   bool
}

func (b *vpCS) num(v int64) {
	// small numbers only (the templates use values in -100..100); one-byte form
	b.code = append(b.code, byte(v+139))
}

// sym appends a symbolic small integer and returns its value
func (b *vpCS) sym(tag string) int64 {
	v := vpInt16(tag)
	vpAssume(v >= -50 && v <= 50)
	b.code = append(b.code, byte(v+139))
	return int64(v)
}

func (b *vpCS) op(bytes ...byte) { b.code = append(b.code, bytes...) }

func (b *vpCS) hsbw(tag string) {
	sbx, wx := b.sym(tag+".sbx"), b.sym(tag+".wx")
	b.op(13)
	b.x, b.y, b.lsbx, b.lsby, b.wx, b.wy = sbx, 0, sbx, 0, wx, 0
}

func (b *vpCS) sbw(tag string) {
	sbx, sby, wx, wy := b.sym(tag+".sbx"), b.sym(tag+".sby"), b.sym(tag+".wx"), b.sym(tag+".wy")
	b.op(12, 7)
	b.x, b.y, b.lsbx, b.lsby, b.wx, b.wy = sbx, sby, sbx, sby, wx, wy
}

func (b *vpCS) emit(kind GlyphOpType, coords ...int64) {
	b.cmds = append(b.cmds, kind)
	b.pts = append(b.pts, coords)
}

func (b *vpCS) moveto(tag string, variant int) {
	var dx, dy int64
	switch variant {
	case 0:
		dx, dy = b.sym(tag+".dx"), b.sym(tag+".dy")
		b.op(21)
	case 1:
		dx = b.sym(tag + ".dx")
		b.op(22)
	default:
		dy = b.sym(tag + ".dy")
		b.op(4)
	}
	b.x, b.y = b.x+dx, b.y+dy
	b.emit(OpMoveTo, b.x, b.y)
	b.open = false
}

func (b *vpCS) lineto(tag string, variant int) {
	var dx, dy int64
	switch variant {
	case 0:
		dx, dy = b.sym(tag+".dx"), b.sym(tag+".dy")
		b.op(5)
	case 1:
		dx = b.sym(tag + ".dx")
		b.op(6)
	default:
		dy = b.sym(tag + ".dy")
		b.op(7)
	}
	b.x, b.y = b.x+dx, b.y+dy
	b.emit(OpLineTo, b.x, b.y)
	b.open = true
}

func (b *vpCS) curveto(tag string, variant int) {
	var d [6]int64
	switch variant {
	case 0:
		for i := range d {
			d[i] = b.sym(tag + ".d" + vpDigitS(i))
		}
		b.op(8)
	case 1: // hvcurveto dx1 dx2 dy2 dy3
		d[0], d[2], d[3], d[5] = b.sym(tag+".a"), b.sym(tag+".b"), b.sym(tag+".c"), b.sym(tag+".d")
		b.op(31)
	default: // vhcurveto dy1 dx2 dy2 dx3
		d[1], d[2], d[3], d[4] = b.sym(tag+".a"), b.sym(tag+".b"), b.sym(tag+".c"), b.sym(tag+".d")
		b.op(30)
	}
	x1, y1 := b.x+d[0], b.y+d[1]
	x2, y2 := x1+d[2], y1+d[3]
	b.x, b.y = x2+d[4], y2+d[5]
	b.emit(OpCurveTo, x1, y1, x2, y2, b.x, b.y)
	b.open = true
}

func (b *vpCS) closepath() {
	b.op(9)
	b.emit(OpClosePath)
	b.open = false
}

// flex: the sequence of the Type 1 book, section 8.3: 1 othersubr, seven rmoveto + 2 othersubr,
// then "fh x y 3 0 callothersubr pop pop setcurrentpoint".  It describes two Bezier curves through
// the last six of the seven points, inside the current sub-path.
func (b *vpCS) flex(tag string) {
	b.num(0)
	b.num(1)
	b.op(12, 16) // 0 1 callothersubr
	var px, py [7]int64
	x, y := b.x, b.y
	for i := 0; i < 7; i++ {
		dx, dy := b.sym(tag+".fx"+vpDigitS(i)), b.sym(tag+".fy"+vpDigitS(i))
		b.op(21) // rmoveto
		x, y = x+dx, y+dy
		px[i], py[i] = x, y
		b.num(0)
		b.num(2)
		b.op(12, 16) // 0 2 callothersubr
	}
	b.num(50) // flex height
	// final point in absolute character space coordinates (small by the template's ranges)
	b.code = append(b.code, 255, byte(uint32(x)>>24), byte(uint32(x)>>16), byte(uint32(x)>>8), byte(uint32(x)))
	b.code = append(b.code, 255, byte(uint32(y)>>24), byte(uint32(y)>>16), byte(uint32(y)>>8), byte(uint32(y)))
	b.num(3)
	b.num(0)
	b.op(12, 16) // 3 0 callothersubr
	b.op(12, 17) // pop
	b.op(12, 17) // pop
	b.op(12, 33) // setcurrentpoint
	b.emit(OpCurveTo, px[1], py[1], px[2], py[2], px[3], py[3])
	b.emit(OpCurveTo, px[4], py[4], px[5], py[5], px[6], py[6])
	b.x, b.y = x, y
	b.open = true
}

func (b *vpCS) stem(tag string, vertical bool) {
	p, w := b.sym(tag+".pos"), b.sym(tag+".w")
	if vertical {
		b.op(3)
		b.vstem = append(b.vstem, b.lsbx+p, b.lsbx+p+w)
	} else {
		b.op(1)
		b.hstem = append(b.hstem, b.lsby+p, b.lsby+p+w)
	}
}

// stem3: three stems of one direction in one command (hstem3 = 12 2, vstem3 = 12 1)
func (b *vpCS) stem3(tag string, vertical bool) {
	var v [6]int64
	for i := range v {
		v[i] = b.sym(tag + "." + vpDigitS(i))
	}
	base := b.lsby
	if vertical {
		base = b.lsbx
		b.op(12, 1)
	} else {
		b.op(12, 2)
	}
	stems := []int64{base + v[0], base + v[0] + v[1], base + v[2], base + v[2] + v[3], base + v[4], base + v[4] + v[5]}
	if vertical {
		b.vstem = append(b.vstem, stems...)
	} else {
		b.hstem = append(b.hstem, stems...)
	}
}

func (b *vpCS) endchar() {
	b.op(14)
}

func (b *vpCS) check(g *Glyph, err error) {
	vpAssert("conforming-charstring-accepted", err == nil && g != nil)
	if err != nil || g == nil {
		return
	}
	vpAssert("advance-width", g.WidthX == float64(b.wx) && g.WidthY == float64(b.wy))
	same := len(g.Cmds) == len(b.cmds)
	if same {
		for i, c := range g.Cmds {
			if c.Op != b.cmds[i] || len(c.Args) != len(b.pts[i]) {
				same = false
				break
			}
			for k, a := range c.Args {
				if a != float64(b.pts[i][k]) {
					same = false
				}
			}
		}
	}
	vpAssert("outline-in-absolute-coordinates", same)
	stems := len(g.HStem) == len(b.hstem) && len(g.VStem) == len(b.vstem)
	if stems {
		for i := range b.hstem {
			if g.HStem[i] != funit.Int16(b.hstem[i]) {
				stems = false
			}
		}
		for i := range b.vstem {
			if g.VStem[i] != funit.Int16(b.vstem[i]) {
				stems = false
			}
		}
	}
	vpAssert("stem-hints", stems)
}

// C06 K1: the real charstring decoder against the glyph the Type 1 book prescribes, on command
// templates with symbolic operands: side bearings (hsbw/sbw), every move/line/curve variant, flex
// placed after a move, a line or a curve, stems relative to the side bearing, subroutine calls,
// hint replacement, dotsection, hstem3/vstem3, the longer number forms, div.
func VP_C06_templates() {
	vpUnwind(800)
	vpAllocLimit(1 << 20)
	b := &vpCS{}
	info := &decodeInfo{}
	tmpl := vpChoose("template", vpParam("TEMPLATES", 10))
	switch tmpl {
	case 0: // all variants of move/line/curve in one contour
		b.hsbw("h")
		b.moveto("m", vpChoose("mv", 3))
		b.lineto("l", vpChoose("lv", 3))
		b.curveto("c", vpChoose("cv", 3))
		b.closepath()
	case 1: // flex after a move
		b.hsbw("h")
		b.moveto("m", 0)
		b.flex("f")
		b.lineto("l", 0)
		b.closepath()
	case 2: // flex after a line
		b.hsbw("h")
		b.moveto("m", 0)
		b.lineto("l", 0)
		b.flex("f")
		b.closepath()
	case 3: // flex after a curve
		b.hsbw("h")
		b.moveto("m", 0)
		b.curveto("c", 0)
		b.flex("f")
		b.closepath()
	case 4: // sbw, stems relative to the side bearing point, dotsection
		b.sbw("s")
		b.stem("hs", false)
		b.stem("vs", true)
		b.op(12, 0) // dotsection
		b.moveto("m", 0)
		b.lineto("l", 1)
		b.closepath()
	case 5: // subroutine: the line segments live in subroutine 4, called twice
		b.hsbw("h")
		sub := &vpCS{}
		d1, d2 := sub.sym("sub.dx"), sub.sym("sub.dy")
		sub.op(5)  // rlineto
		sub.op(11) // return
		info.subrs = [][]byte{{14}, nil, nil, {11}, sub.code}
		b.moveto("m", 0)
		for k := 0; k < 2; k++ {
			b.num(4)
			b.op(10) // callsubr
			b.x, b.y = b.x+d1, b.y+d2
			b.emit(OpLineTo, b.x, b.y)
		}
		b.closepath()
	case 6: // hint replacement: "n 1 3 callothersubr pop callsubr" switches to the stems of subr n
		b.hsbw("h")
		b.stem("hs", false)
		b.moveto("m", 0)
		b.lineto("l", 0)
		sub := &vpCS{lsbx: b.lsbx, lsby: b.lsby}
		sub.stem("hs2", false)
		sub.op(11)
		info.subrs = [][]byte{{14}, nil, nil, {11}, sub.code}
		b.num(4)
		b.num(1)
		b.num(3)
		b.op(12, 16) // callothersubr
		b.op(12, 17) // pop
		b.op(10)     // callsubr
		// the replacement hints are not representable in a Glyph (one hint set per direction): the
		// reader keeps the initial set, which is what is asserted; the outline must be unaffected
		b.lineto("l2", 0)
		b.closepath()
	case 7: // the three longer number encodings, each with a symbolic value
		b.hsbw("h")
		v1 := vpInt16("n.pos")
		vpAssume(v1 >= 108 && v1 <= 1131)
		b.code = append(b.code, byte((v1-108)>>8)+247, byte((v1-108)&0xff))
		v2 := vpInt16("n.neg")
		vpAssume(v2 >= -1131 && v2 <= -108)
		b.code = append(b.code, byte((-v2-108)>>8)+251, byte((-v2-108)&0xff))
		b.op(21) // rmoveto
		b.x, b.y = b.x+int64(v1), b.y+int64(v2)
		b.emit(OpMoveTo, b.x, b.y)
		v3 := vpInt32("n.long")
		b.code = append(b.code, 255, byte(uint32(v3)>>24), byte(uint32(v3)>>16), byte(uint32(v3)>>8), byte(uint32(v3)))
		b.op(6) // hlineto
		b.x += int64(v3)
		b.emit(OpLineTo, b.x, b.y)
		b.closepath()
	case 8: // hstem3 / vstem3 (not mixed with other stems of the same direction)
		b.sbw("s")
		b.stem3("h3", false)
		if vpChoose("both", 2) == 1 {
			b.stem3("v3", true)
		} else {
			b.stem("vs", true)
		}
		b.moveto("m", 0)
		b.lineto("l", 2)
		b.closepath()
	default: // div: a coordinate written as quotient of integers (exact here)
		b.hsbw("h")
		q := int16([]int{2, 3, 7, 10}[vpChoose("q", 4)])
		k := vpInt16("k")
		vpAssume(k >= -10 && k <= 10)
		p := int64(k) * int64(q)
		b.num(p)
		b.code = append(b.code, byte(q+139))
		b.op(12, 12) // div
		dy := b.sym("m.dy")
		b.op(21) // rmoveto
		b.x, b.y = b.x+int64(k), b.y+dy
		b.emit(OpMoveTo, b.x, b.y)
		b.lineto("l", 1)
		b.closepath()
	}
	b.endchar()
	g, err := info.decodeCharString(b.code, "g")
	b.check(g, err)
	vpCover("done")
}

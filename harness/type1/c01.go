package type1

// C01 K3: charstring decryption with an arbitrary lenIV never panics or over-allocates.
func VP_C01_deobfuscate() {
	n := vpParam("N", 6)
	vpAllocLimit(1 << 20)
	cipher := vpBytes("c", vpChoose("len", n+1))
	lenIV := vpInt("lenIV")
	plain := deobfuscateCharstring(cipher, lenIV)
	vpAssert("plain-not-longer-than-cipher", len(plain) <= len(cipher))
	vpCover("returned")
}

// C01 K2a: the charstring decoder on arbitrary bytes (with arbitrary small subroutines)
// returns a glyph or an error: no panic, bounded work, bounded allocation.
func VP_C01_charstring_raw() {
	n := vpParam("N", 4)
	vpAllocLimit(1 << 16)
	vpUnwind(200)
	code := vpBytes("code", vpChoose("len", n+1))
	info := &decodeInfo{}
	ns := vpParam("SUBRLEN", 2)
	if ns > 0 {
		info.subrs = [][]byte{vpBytes("s0", ns), nil, vpBytes("s2", vpChoose("s2len", ns+1))}
	}
	vpStepLimit(300000)
	g, err := info.decodeCharString(code, "g")
	vpAssert("glyph-xor-error", (g == nil) != (err == nil))
	if err == nil {
		vpCover("glyph")
	} else {
		vpCover("error")
	}
}

// opcodes of the Type 1 charstring language (one and two byte)
var vpOpcodes = [][]byte{
	{1}, {3}, {4}, {5}, {6}, {7}, {8}, {9}, {10}, {11}, {13}, {14}, {21}, {22}, {30}, {31},
	{12, 0}, {12, 1}, {12, 2}, {12, 6}, {12, 7}, {12, 12}, {12, 16}, {12, 17}, {12, 33},
	{2}, {12, 3}, {15}, // invalid ones
}

// C01 K2b: item form - a sequence of numbers (any encoding, symbolic value) and opcodes.
func VP_C01_charstring_items() {
	items := vpParam("ITEMS", 5)
	vpAllocLimit(1 << 16)
	vpUnwind(200)
	var code []byte
	k := vpChoose("items", items+1)
	for i := 0; i < k; i++ {
		switch vpChoose("kind", 4) {
		case 0: // small number: one symbolic byte 32..246
			b := vpByte("n1")
			vpAssume(b >= 32 && b <= 246)
			code = append(code, b)
		case 1: // two-byte number
			b := vpByte("n2a")
			vpAssume(b >= 247 && b <= 254)
			code = append(code, b, vpByte("n2b"))
		case 2: // five-byte number
			code = append(code, 255, vpByte("n5a"), vpByte("n5b"), vpByte("n5c"), vpByte("n5d"))
		default:
			code = append(code, vpOpcodes[vpChoose("op", len(vpOpcodes))]...)
		}
	}
	info := &decodeInfo{}
	// 0: endchar, 2: tail call of 0, 3: return, 4: flex end without arguments, 5: tail call of itself,
	// 6/7: a cycle of tail calls, 8: non-tail call of itself
	info.subrs = [][]byte{{14}, nil, {139, 10}, {11}, {139, 139, 12, 16, 11}, {144, 10}, {146, 10}, {145, 10}, {147, 10, 11}}
	vpStepLimit(300000)
	g, err := info.decodeCharString(code, "g")
	vpAssert("glyph-xor-error", (g == nil) != (err == nil))
	if err == nil {
		vpCover("glyph")
	} else {
		vpCover("error")
	}
}

package type1

import (
	"seehuhn.de/go/geom/matrix"
	"seehuhn.de/go/geom/rect"
)

// vpCoord: an arbitrary finite coordinate; with INTCOORD=1 an arbitrary integer-valued one
// (all int32), which keeps comparison-only logic in the bit-vector theory.
func vpCoord(tag string) float64 {
	if vpParam("INTCOORD", 0) == 1 {
		return float64(vpInt32(tag))
	}
	x := vpFloat64(tag)
	vpAssume(x > -1e9 && x < 1e9)
	return x
}

// vpGlyph builds a glyph of up to maxCmds commands of symbolic kind with symbolic coordinates and
// returns the end points the bounding box is defined by.
func vpGlyph(tag string, maxCmds int) (*Glyph, [][2]float64) {
	g := &Glyph{}
	var pts [][2]float64
	n := vpChoose(tag+".n", maxCmds+1)
	for i := 0; i < n; i++ {
		t := tag + vpDigitS(i)
		switch vpChoose(t+".op", 4) {
		case 0:
			x, y := vpCoord(t+".x"), vpCoord(t+".y")
			g.MoveTo(x, y)
			pts = append(pts, [2]float64{x, y})
		case 1:
			x, y := vpCoord(t+".x"), vpCoord(t+".y")
			g.LineTo(x, y)
			pts = append(pts, [2]float64{x, y})
		case 2:
			x, y := vpCoord(t+".x"), vpCoord(t+".y")
			g.CurveTo(vpCoord(t+".a"), vpCoord(t+".b"), vpCoord(t+".c"), vpCoord(t+".d"), x, y)
			pts = append(pts, [2]float64{x, y})
		default:
			g.ClosePath()
		}
	}
	return g, pts
}

func vpDigitS(i int) string { return string(rune('0' + i%10)) }

func vpBoxOf(pts [][2]float64, sx, sy float64) rect.Rect {
	var r rect.Rect
	for i, p := range pts {
		x, y := p[0]*sx, p[1]*sy
		if i == 0 {
			r = rect.Rect{LLx: x, LLy: y, URx: x, URy: y}
			continue
		}
		if x < r.LLx {
			r.LLx = x
		}
		if x > r.URx {
			r.URx = x
		}
		if y < r.LLy {
			r.LLy = y
		}
		if y > r.URy {
			r.URy = y
		}
	}
	return r
}

func vpRectEq(a, b rect.Rect) bool {
	return a.LLx == b.LLx && a.LLy == b.LLy && a.URx == b.URx && a.URy == b.URy
}

// K1: glyph bounding boxes (glyph space and PDF space).
func VP_C19_bbox() {
	g, pts := vpGlyph("g", vpParam("CMDS", 3))
	bb := g.BBox()
	vpAssert("bbox-is-min-max-of-end-points", vpRectEq(bb, vpBoxOf(pts, 1, 1)))
	if vpParam("PDF", 1) == 0 {
		vpCover("done")
		return
	}
	scales := []float64{0.001, 0.0005, -0.001}
	s := scales[vpChoose("scale", len(scales))]
	ty, tr := 0.001, 0.0
	if vpParam("AFFINE", 0) == 1 {
		// mirrored y axis and a translation (decided for integer coordinates)
		ty = []float64{0.001, -0.001}[vpChoose("yscale", 2)]
		tr = []float64{0, 0.05}[vpChoose("translate", 2)]
		s = []float64{0.001, -0.001}[vpChoose("xscale", 2)]
	}
	f := &Font{FontInfo: &FontInfo{FontMatrix: matrix.Matrix{s, 0, 0, ty, tr, tr}}, Glyphs: map[string]*Glyph{"g": g}}
	pdf := f.GlyphBBoxPDF("g")
	// the box of the transformed end points x*(s*1000)+tr*1000, y*(ty*1000)+tr*1000
	var want rect.Rect
	for i, p := range pts {
		x, y := p[0]*(s*1000)+tr*1000, p[1]*(ty*1000)+tr*1000
		if i == 0 {
			want = rect.Rect{LLx: x, LLy: y, URx: x, URy: y}
			continue
		}
		want.LLx, want.URx = vpMin(want.LLx, x), vpMax(want.URx, x)
		want.LLy, want.URy = vpMin(want.LLy, y), vpMax(want.URy, y)
	}
	vpAssert("pdf-bbox-is-the-box-of-the-transformed-points", vpRectEq(pdf, want))
	vpAssert("missing-glyph-zero-box", f.GlyphBBoxPDF("absent").IsZero())
	vpCover("done")
}

func vpMin(a, b float64) float64 {
	if a < b {
		return a
	}
	return b
}

func vpMax(a, b float64) float64 {
	if a > b {
		return a
	}
	return b
}

// K2: the font box is the union of the non-empty glyph boxes, for every map iteration order.
func VP_C19_fontbbox() {
	vpMapOrder(true)
	n := 1 + vpChoose("glyphs", 3)
	f := &Font{FontInfo: &FontInfo{FontMatrix: matrix.Matrix{0.001, 0, 0, 0.001, 0, 0}}, Glyphs: map[string]*Glyph{}}
	var union rect.Rect
	first := true
	for i := 0; i < n; i++ {
		g := &Glyph{}
		name := "g" + vpDigitS(i)
		f.Glyphs[name] = g
		if vpChoose(name+".empty", 2) == 1 {
			continue
		}
		x0, y0 := vpCoord(name+".x0"), vpCoord(name+".y0")
		x1, y1 := vpCoord(name+".x1"), vpCoord(name+".y1")
		g.MoveTo(x0, y0)
		g.LineTo(x1, y1)
		b := vpBoxOf([][2]float64{{x0, y0}, {x1, y1}}, 1, 1)
		if b.IsZero() {
			continue
		}
		if first {
			union, first = b, false
		} else {
			union = rect.Rect{LLx: vpMin(union.LLx, b.LLx), LLy: vpMin(union.LLy, b.LLy), URx: vpMax(union.URx, b.URx), URy: vpMax(union.URy, b.URy)}
		}
	}
	vpAssert("font-bbox-is-union", vpRectEq(f.FontBBox(), union))
	vpCover("done")
}

// K3: widths: per-glyph call and width map agree; unknown names fall back to .notdef, else 0.
func VP_C19_widths() {
	w1, w2 := vpCoord("w1"), vpCoord("w2")
	s := []float64{0.001, 0.0005, 0.002}[vpChoose("scale", 3)]
	f := &Font{FontInfo: &FontInfo{FontMatrix: matrix.Matrix{s, 0, 0, 0.001, 0, 0}}, Glyphs: map[string]*Glyph{"a": {WidthX: w1}}}
	hasNotdef := vpChoose("notdef", 2) == 1
	if hasNotdef {
		f.Glyphs[".notdef"] = &Glyph{WidthX: w2}
	}
	m := f.WidthsMapPDF()
	vpAssert("map-and-call-agree", m["a"] == f.GlyphWidthPDF("a"))
	vpAssert("width-is-advance-times-scale", f.GlyphWidthPDF("a") == w1*(s*1000))
	if hasNotdef {
		vpAssert("unknown-falls-back-to-notdef", f.GlyphWidthPDF("zzz") == f.GlyphWidthPDF(".notdef"))
	} else {
		vpAssert("unknown-without-notdef-is-zero", f.GlyphWidthPDF("zzz") == 0)
	}
	vpCover("done")
}

var vpGlyphPool = []string{"+", "a", "b", "zero", "A"}

// vpCheckGlyphList checks the list against the definition.
func vpCheckGlyphList(list []string, glyphs map[string]bool, enc []string, numGlyphs int) {
	vpAssert("length-equals-glyph-count", len(list) == numGlyphs)
	vpAssert("starts-with-notdef", len(list) > 0 && list[0] == ".notdef")
	// each glyph exactly once
	count := map[string]int{}
	for _, n := range list {
		count[n]++
	}
	once := true
	for n := range glyphs {
		if count[n] != 1 {
			once = false
		}
	}
	for n, c := range count {
		if c != 1 || (!glyphs[n] && n != ".notdef") {
			once = false
		}
	}
	vpAssert("each-glyph-exactly-once", once)
	// encoded glyphs first (in code order; a glyph with several codes may use its first or last code), then the rest alphabetically
	code := func(name string, last bool) int {
		c := 256
		for i, e := range enc {
			if e == name && e != ".notdef" {
				if c == 256 || last {
					c = i
				}
			}
		}
		return c
	}
	ordered := true
	for i := 2; i < len(list); i++ {
		a, b := list[i-1], list[i]
		okFirst := code(a, false) < code(b, false) || (code(a, false) == code(b, false) && a < b)
		okLast := code(a, true) < code(b, true) || (code(a, true) == code(b, true) && a < b)
		if !okFirst && !okLast {
			ordered = false
		}
	}
	vpAssert("encoded-in-code-order-then-alphabetical", ordered)
}

// K4: glyph list of a font.
func VP_C19_glyphlist() {
	f := &Font{Glyphs: map[string]*Glyph{}}
	glyphs := map[string]bool{}
	for _, n := range vpGlyphPool[:vpParam("POOL", 4)] {
		if vpChoose("has."+n, 2) == 1 {
			f.Glyphs[n] = &Glyph{}
			glyphs[n] = true
		}
	}
	if vpChoose("has.notdef", 2) == 1 {
		f.Glyphs[".notdef"] = &Glyph{}
		glyphs[".notdef"] = true
	}
	switch vpChoose("encoding", 3) {
	case 1, 2:
		enc := make([]string, 256)
		for i := range enc {
			enc[i] = ".notdef"
		}
		names := []string{"a", "+", "missing", "b"}
		codes := []int{0, 65, 66, 255}
		for k := 0; k < 2; k++ {
			enc[codes[vpChoose("code"+vpDigitS(k), len(codes))]] = names[vpChoose("ename"+vpDigitS(k), len(names))]
		}
		f.Encoding = enc
	}
	vpCheckGlyphList(f.GlyphList(), glyphs, f.Encoding, f.NumGlyphs())
	vpCover("done")
}

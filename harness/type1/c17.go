package type1

import "seehuhn.de/go/geom/matrix"

// C17 K2: results of the writer-side helpers and query methods do not depend on map iteration order.
func VP_C17_type1_helpers() {
	vpMapOrder(true)
	vpUnwind(5000)
	f := &Font{FontInfo: &FontInfo{FontMatrix: matrix.Matrix{0.001, 0, 0, 0.001, 0, 0}}, Glyphs: map[string]*Glyph{}, Private: &PrivateDict{}}
	names := []string{"a", "b", ".notdef"}
	for i, n := range names {
		g := &Glyph{WidthX: float64(500 + i)}
		g.MoveTo(float64(10*i), 0)
		g.LineTo(float64(100+i), float64(200-i))
		g.ClosePath()
		f.Glyphs[n] = g
	}
	switch vpChoose("what", 4) {
	case 0:
		c1 := f.encodeCharstrings()
		c2 := f.encodeCharstrings()
		same := len(c1) == len(c2)
		for k, v := range c1 {
			if c2[k] != v {
				same = false
			}
		}
		vpAssert("charstrings-deterministic", same)
	case 1:
		l1 := f.GlyphList()
		l2 := f.GlyphList()
		same := len(l1) == len(l2)
		if same {
			for i := range l1 {
				if l1[i] != l2[i] {
					same = false
				}
			}
		}
		vpAssert("glyph-list-deterministic", same)
	case 2:
		vpAssert("font-bbox-deterministic", vpRectEq(f.FontBBox(), f.FontBBox()) && vpRectEq(f.FontBBoxPDF(), f.FontBBoxPDF()))
	default:
		w1 := f.WidthsMapPDF()
		w2 := f.WidthsMapPDF()
		same := len(w1) == len(w2)
		for k, v := range w1 {
			if w2[k] != v {
				same = false
			}
		}
		vpAssert("widths-deterministic", same)
	}
	vpCover("done")
}

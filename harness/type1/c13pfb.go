package type1

import (
	"seehuhn.de/go/geom/matrix"
	"seehuhn.de/go/postscript/funit"
)

// vpWriteFont is a small complete font for the file-level writer harnesses; with many > 0 it gets
// that many extra glyphs, enough to push the encrypted segment of a PFB file over 64 KiB.
func vpWriteFont(many int) *Font {
	enc := make([]string, 256)
	for i := range enc {
		enc[i] = ".notdef"
	}
	enc[65] = "A"
	f := &Font{
		FontInfo: &FontInfo{FontName: "Mini", FullName: "Mini Font", Version: "1.0", FontMatrix: matrix.Matrix{0.001, 0, 0, 0.001, 0, 0}},
		Private:  &PrivateDict{BlueValues: []funit.Int16{0, 10}, BlueScale: 0.039625, BlueShift: 7, BlueFuzz: 1},
		Encoding: enc,
		Glyphs: map[string]*Glyph{
			".notdef": {WidthX: 500},
			"A": {WidthX: 600, Cmds: []GlyphOp{{Op: OpMoveTo, Args: []float64{0, 0}}, {Op: OpLineTo, Args: []float64{300, 700}},
				{Op: OpLineTo, Args: []float64{600, 0}}, {Op: OpClosePath}}},
		},
	}
	for i := 0; i < many; i++ {
		name := "g" + string(rune('a'+i/676%26)) + string(rune('a'+i/26%26)) + string(rune('a'+i%26))
		f.Glyphs[name] = &Glyph{WidthX: 500, Cmds: []GlyphOp{{Op: OpMoveTo, Args: []float64{10, 10}}, {Op: OpLineTo, Args: []float64{400, 10}},
			{Op: OpCurveTo, Args: []float64{400, 300, 300, 600, 200, 600}}, {Op: OpLineTo, Args: []float64{10, 600}}, {Op: OpClosePath}}}
	}
	return f
}

// vpPFBSegments parses the PFB framing: ok when the file is a sequence of (128, type, 32-bit
// little-endian length, that many bytes) segments ended by (128, 3) with nothing after it.
func vpPFBSegments(out []byte) (kinds []byte, sizes []int, ok bool) {
	pos := 0
	for {
		if pos+2 > len(out) || out[pos] != 128 {
			return kinds, sizes, false
		}
		kind := out[pos+1]
		if kind == 3 {
			return kinds, sizes, pos+2 == len(out)
		}
		if (kind != 1 && kind != 2) || pos+6 > len(out) {
			return kinds, sizes, false
		}
		n := int(out[pos+2]) | int(out[pos+3])<<8 | int(out[pos+4])<<16 | int(out[pos+5])<<24
		pos += 6
		if n < 0 || pos+n > len(out) {
			return kinds, sizes, false
		}
		kinds = append(kinds, kind)
		sizes = append(sizes, n)
		pos += n
	}
}

// C13 K4 / C08 K6 / C10 K4: the file-level framing of Font.Write around the (stubbed) templates.
// A destination that fails at any one Write call - for good, or just that once - makes Write
// return an error; without a fault the PFB output is three well-formed segments (text, binary,
// text) and the end marker, also when the binary segment is longer than 64 KiB (BIG = 1); the
// other formats return nil.
func VP_C13_font_write() {
	vpUnwind(300000)
	vpStepLimit(60000000)
	vpAllocLimit(64 << 20)
	many := 0
	if vpParam("BIG", 0) == 1 {
		many = 2600
	}
	f := vpWriteFont(many)
	format := []FileFormat{FormatPFB, FormatPFA, FormatBinary, FormatNoEExec}[vpChoose("format", vpParam("FORMATS", 4))]
	failAt := vpChoose("fail", vpParam("FAILS", 9)) - 1
	w := &vpWriter{failAt: failAt, once: vpChoose("once", 2) == 1}
	err := f.Write(w, &WriterOptions{Format: format})
	if failAt >= 0 && w.calls > failAt {
		vpAssert("write-fault-reported", err != nil)
		vpCover("fault")
		return
	}
	vpAssert("writes-without-fault", err == nil)
	if err != nil {
		return
	}
	if format == FormatPFB {
		kinds, sizes, ok := vpPFBSegments(w.out)
		vpAssert("pfb-framing-well-formed", ok && len(kinds) == 3 && kinds[0] == 1 && kinds[1] == 2 && kinds[2] == 1)
		if many > 0 && ok && len(sizes) == 3 {
			vpAssert("long-binary-segment", sizes[1] > 65536)
		}
		vpCover("pfb")
	}
	vpCover("done")
}

package type1

// vpCharstringTokens splits the encoder's output into numbers and opcodes.  Natively the numbers
// are parsed from their byte encodings; in the engine's RELAX encoding appendInt is a recording
// stub that leaves the marker byte 0 and the numbers are taken from the record (their byte
// encodings are decided for all int32 in VP_C20_int).
type vpToken struct {
	isNum bool
	num   float64
	op    int
}

func vpCharstringTokens(code []byte) []vpToken {
	var out []vpToken
	k := 0
	for i := 0; i < len(code); {
		b := code[i]
		switch {
		case b == 0 && vpSymbolic():
			out = append(out, vpToken{isNum: true, num: vpEmitted(k)})
			k++
			i++
		case b >= 32 && b <= 246:
			out = append(out, vpToken{isNum: true, num: float64(int(b) - 139)})
			i++
		case b >= 247 && b <= 250:
			out = append(out, vpToken{isNum: true, num: float64((int(b)-247)*256 + int(code[i+1]) + 108)})
			i += 2
		case b >= 251 && b <= 254:
			out = append(out, vpToken{isNum: true, num: float64(-(int(b)-251)*256 - int(code[i+1]) - 108)})
			i += 2
		case b == 255:
			v := int32(uint32(code[i+1])<<24 | uint32(code[i+2])<<16 | uint32(code[i+3])<<8 | uint32(code[i+4]))
			out = append(out, vpToken{isNum: true, num: float64(v)})
			i += 5
		case b == 12:
			out = append(out, vpToken{op: 1200 + int(code[i+1])})
			i += 2
		default:
			out = append(out, vpToken{op: int(b)})
			i++
		}
	}
	return out
}

const vpBound = 1.0/214 + 1e-9

func vpWithin(a, b, d float64) bool { return a-b <= d && b-a <= d }

// C20 K2 (partial): a number is written as an integer or as a quotient p q div with
// 1 <= q <= 107 and p in int32, and the value the function reports back (which the encoder uses
// to track the decoder's position) is the written one.  The bound |v - x| <= 1/214 on the
// quotient path is NOT asserted here: the machine-generated formula over the 107 loop iterations
// stayed `unknown` (300 s, z3 5.1 and cvc5); it is the stated contract of K3.
func VP_C20_fraction() {
	vpUnwind(400)
	x := vpRealRange("x", -1e6, 1e6)
	buf, v := appendNumber(nil, x)
	toks := vpCharstringTokens(buf)
	switch len(toks) {
	case 1:
		vpCover("integer")
		vpAssert("integer-value-within-1/214", vpWithin(v, x, vpBound))
		vpAssert("single-number", toks[0].isNum)
		vpAssert("reported-value-is-the-written-integer", vpWithin(v, toks[0].num, 1e-9))
	case 3:
		vpCover("quotient")
		ok := toks[0].isNum && toks[1].isNum && !toks[2].isNum && toks[2].op == 1212
		vpAssert("p-q-div", ok)
		if ok {
			p, q := toks[0].num, toks[1].num
			vpAssert("denominator-in-1..107", q >= 1 && q <= 107)
			vpAssert("numerator-fits-int32", p >= -2147483648 && p <= 2147483647)
			// |v*q - p| small  <=>  v = p/q up to rounding
			vpAssert("reported-value-is-the-written-quotient", vpWithin(v*q, p, 1e-6))
		}
	default:
		vpAssert("one-number-or-a-quotient", false)
	}
}

// C20 K3: no drift.  With appendNumber taken at its K2 contract (each written number is within
// 1/214 of the requested one and is what the decoder reconstructs), the encoder requests every
// delta relative to the position the decoder will have reached, so every point of the path -
// here: one command of any kind and shape after a move to an arbitrary point, i.e. from an
// arbitrary tracked position - is reconstructed within that bound of where it should be.
// Native confirmation: the solver's model fixes the shape of the path; whether the worst case of
// the contract is realised depends on the fractional parts, so the native replay tries a fixed
// list of fractional parts for every coordinate (a concrete search used only to confirm).
var vpFracs = []float64{0, 0.004, 0.008, 0.012, 0.0047, 0.3333, 0.1234, 0.9953, 0.5, 0.0093, 0.25, 0.996}

func VP_C20_nodrift() {
	vpUnwind(400)
	tries := 1
	if !vpSymbolic() {
		tries = 48
	}
	for try := 0; try < tries; try++ {
		vpResetNames()
		vpNodriftBody(try)
	}
	vpCover("done")
}

func vpNodriftBody(try int) {
	nth, nthX, nthY := 0, 0, 0
	c := func(tag string) float64 {
		v := vpRealRange(tag, -10000, 10000)
		if !vpSymbolic() && try > 0 {
			// successive coordinates get fractional parts in arithmetic progression, so that
			// successive deltas share one (poorly approximable) fraction
			step := []float64{0.004, 0.0047, 0.0093, 0.0031, 0.0042, 0.0045}[try%6]
			if try < 24 {
				nth++
				v = float64(int64(v)) + float64(nth)*step*float64(1+try/6)
			} else {
				// one progression per axis: all deltas along an axis have the same fraction, so the
				// rounding errors of successive commands have the same sign and add up
				k := &nthX
				for i := 0; i < len(tag); i++ {
					if tag[i] == 'y' {
						k = &nthY
					}
				}
				*k++
				v = float64(int64(v)) + float64(*k-1)*step*float64(1+(try-24)/6) // the start point is integral
			}
		}
		return v
	}
	g := &Glyph{}
	x0, y0 := c("x0"), c("y0")
	g.MoveTo(x0, y0)
	var targets [][2]float64
	targets = append(targets, [2]float64{x0, y0})
	kind := vpChoose("kind", 3)
	// shape: general, horizontal-ish, vertical-ish (the encoder picks h/v/r and hv/vh/rr variants)
	shape := vpChoose("shape", 3)
	pt := func(tag string, px, py float64) (float64, float64) {
		switch shape {
		case 1:
			return c(tag + "x"), py
		case 2:
			return px, c(tag + "y")
		}
		return c(tag + "x"), c(tag + "y")
	}
	switch kind {
	case 0:
		x, y := pt("m", x0, y0)
		g.MoveTo(x, y)
		targets = append(targets, [2]float64{x, y})
	case 1:
		x, y := pt("l", x0, y0)
		g.LineTo(x, y)
		targets = append(targets, [2]float64{x, y})
	default:
		var x1, y1, x2, y2, x3, y3 float64
		switch shape {
		case 1: // hvcurveto: first tangent horizontal, last vertical
			x1, y1 = c("c1x"), y0
			x2, y2 = c("c2x"), c("c2y")
			x3, y3 = x2, c("c3y")
		case 2: // vhcurveto
			x1, y1 = x0, c("c1y")
			x2, y2 = c("c2x"), c("c2y")
			x3, y3 = c("c3x"), y2
		default:
			x1, y1, x2, y2, x3, y3 = c("c1x"), c("c1y"), c("c2x"), c("c2y"), c("c3x"), c("c3y")
		}
		g.CurveTo(x1, y1, x2, y2, x3, y3)
		targets = append(targets, [2]float64{x1, y1}, [2]float64{x2, y2}, [2]float64{x3, y3})
	}
	if vpChoose("tail", vpParam("TAIL", 2)) == 1 {
		// a general line after the command: shows whether the encoder tracked the position the
		// command really reached (its own rounding included) and not the ideal one
		x, y := c("tx"), c("ty")
		g.LineTo(x, y)
		targets = append(targets, [2]float64{x, y})
	}
	code := g.encodeCharString(500, 0)
	toks := vpCharstringTokens(code)
	// reference reconstruction of the points from the written numbers
	var stack []float64
	var px, py float64
	var got [][2]float64
	okStruct := true
	for _, t := range toks {
		if t.isNum {
			stack = append(stack, t.num)
			continue
		}
		if t.op == 1212 { // div (native replay only: the engine's contract stub writes plain records)
			if len(stack) < 2 {
				okStruct = false
				break
			}
			n := len(stack)
			stack = append(stack[:n-2], stack[n-2]/stack[n-1])
			continue
		}
		a := stack
		stack = nil
		need := map[int]int{13: 2, 21: 2, 22: 1, 4: 1, 5: 2, 6: 1, 7: 1, 8: 6, 30: 4, 31: 4, 9: 0, 14: 0}
		if n, known := need[t.op]; !known || len(a) != n {
			okStruct = false
			break
		}
		add := func(dx, dy float64) {
			px, py = px+dx, py+dy
			got = append(got, [2]float64{px, py})
		}
		switch t.op {
		case 13:
			px, py = a[0], 0
		case 21, 5:
			add(a[0], a[1])
		case 22, 6:
			add(a[0], 0)
		case 4, 7:
			add(0, a[0])
		case 8:
			add(a[0], a[1])
			add(a[2], a[3])
			add(a[4], a[5])
		case 31:
			add(a[0], 0)
			add(a[1], a[2])
			add(0, a[3])
		case 30:
			add(0, a[0])
			add(a[1], a[2])
			add(a[3], 0)
		}
	}
	vpAssert("conforming-command-sequence", okStruct && len(got) == len(targets))
	if !okStruct || len(got) != len(targets) {
		return
	}
	// 1e-6 on top of the bound: the encoder treats coordinates closer than 1e-6 as equal
	const tol = vpBound + 2e-6
	// one assertion site per shape: counterexamples are collected (and confirmed natively) per site,
	// and the axis-aligned shapes are the ones the native replay can keep intact
	sfx := []string{"", "/horizontal", "/vertical"}[shape]
	for i := range targets {
		vpAssert("point-x-within-the-bound"+sfx, vpWithin(got[i][0], targets[i][0], tol))
		vpAssert("point-y-within-the-bound"+sfx, vpWithin(got[i][1], targets[i][1], tol))
	}
}

package type1

import "math"

// C10 K2: advance widths.  For every finite width w (|w| < 2^31) the written charstring decodes
// to Round(w), and writing that again changes nothing (idempotence of the quantisation).
func VP_C10_width() {
	w := vpFloat64("w")
	vpAssume(w > -2147483000 && w < 2147483000)
	g := &Glyph{WidthX: w}
	wx := int32(math.Round(g.WidthX)) // what Font.encodeCharstrings passes
	code := g.encodeCharString(wx, 0)
	back, err := (&decodeInfo{}).decodeCharString(code, "g")
	vpAssert("decodes", err == nil && back != nil)
	if err != nil || back == nil {
		return
	}
	vpAssert("width-is-rounded-to-whole-units", back.WidthX == math.Round(w))
	wx2 := int32(math.Round(back.WidthX))
	vpAssert("second-cycle-changes-nothing", wx2 == wx)
	vpCover("done")
}

package type1

import "math"

// C10 K2: advance widths through the writer's own charstring production (Font.encodeCharstrings:
// rounding, encoding, charstring encryption).  For every finite width (|w| < 2^31) the written
// charstring decodes to Round(w) (half away from zero, whole units), and writing the re-read
// glyph again gives the same bytes (idempotence of the quantisation).
func VP_C10_width() {
	vpUnwind(200)
	w := vpFloat64("w")
	vpAssume(w > -2147483000 && w < 2147483000)
	wy := 0.0
	if vpChoose("vertical", 2) == 1 {
		wy = vpFloat64("wy")
		vpAssume(wy > -2147483000 && wy < 2147483000)
	}
	f := &Font{Glyphs: map[string]*Glyph{"g": {WidthX: w, WidthY: wy}}}
	obf := f.encodeCharstrings()["g"]
	vpAssert("charstring-written", len(obf) > 4)
	if len(obf) <= 4 {
		return
	}
	code := deobfuscateCharstring([]byte(obf), 4)
	back, err := (&decodeInfo{}).decodeCharString(code, "g")
	vpAssert("decodes", err == nil && back != nil)
	if err != nil || back == nil {
		return
	}
	vpAssert("width-is-rounded-to-whole-units", back.WidthX == math.Round(w) && back.WidthY == math.Round(wy))
	f2 := &Font{Glyphs: map[string]*Glyph{"g": back}}
	obf2 := f2.encodeCharstrings()["g"]
	// (compared after decryption: the cipher is a bijection for a fixed 4-byte prefix, and the
	// prefix search depends on the prefix alone)
	code2 := deobfuscateCharstring([]byte(obf2), 4)
	same := len(code2) == len(code) && obf2[:4] == obf[:4]
	if same {
		for i := 0; i < len(code); i++ {
			if code[i] != code2[i] {
				same = false
			}
		}
	}
	vpAssert("second-cycle-changes-nothing", same)
	vpCover("done")
}

package afm

// C19 K4 (AFM variant): glyph list of a metrics value.
func VP_C19_afm_glyphlist() {
	m := &Metrics{Glyphs: map[string]*GlyphInfo{}}
	glyphs := map[string]bool{}
	for _, n := range []string{"b", "a", "space", "zero"} {
		if vpChoose("has."+n, 2) == 1 {
			m.Glyphs[n] = &GlyphInfo{}
			glyphs[n] = true
		}
	}
	if vpChoose("has.notdef", 2) == 1 {
		m.Glyphs[".notdef"] = &GlyphInfo{}
		glyphs[".notdef"] = true
	}
	if vpChoose("encoding", 2) == 1 {
		enc := make([]string, 256)
		for i := range enc {
			enc[i] = ".notdef"
		}
		names := []string{"a", "b", "missing", "zero"}
		codes := []int{0, 65, 66, 255}
		for k := 0; k < 2; k++ {
			enc[codes[vpChoose("code"+string(rune('0'+k)), len(codes))]] = names[vpChoose("ename"+string(rune('0'+k)), len(names))]
		}
		m.Encoding = enc
	}
	list := m.GlyphList()
	vpAssert("length-equals-glyph-count", len(list) == m.NumGlyphs())
	vpAssert("starts-with-notdef", len(list) > 0 && list[0] == ".notdef")
	count := map[string]int{}
	for _, n := range list {
		count[n]++
	}
	once := true
	for n := range glyphs {
		if count[n] != 1 {
			once = false
		}
	}
	for n, c := range count {
		if c != 1 || (!glyphs[n] && n != ".notdef") {
			once = false
		}
	}
	vpAssert("each-glyph-exactly-once", once)
	// encoded glyphs in code order (first or last code of a glyph), then the rest alphabetically
	code := func(name string, last bool) int {
		c := 256
		for i, e := range m.Encoding {
			if e == name && e != ".notdef" {
				if c == 256 || last {
					c = i
				}
			}
		}
		return c
	}
	ordered := true
	for i := 2; i < len(list); i++ {
		x, y := list[i-1], list[i]
		okFirst := code(x, false) < code(y, false) || (code(x, false) == code(y, false) && x < y)
		okLast := code(x, true) < code(y, true) || (code(x, true) == code(y, true) && x < y)
		if !okFirst && !okLast {
			ordered = false
		}
	}
	vpAssert("encoded-in-code-order-then-alphabetical", ordered)
	vpCover("done")
}

// widths and font box of metrics
func VP_C19_afm_queries() {
	vpMapOrder(true)
	w1 := vpFloat64("w1")
	w2 := vpFloat64("w2")
	vpAssume(w1 == w1 && w2 == w2)
	m := &Metrics{Glyphs: map[string]*GlyphInfo{"a": {WidthX: w1}}}
	hasNotdef := vpChoose("notdef", 2) == 1
	if hasNotdef {
		m.Glyphs[".notdef"] = &GlyphInfo{WidthX: w2}
	}
	vpAssert("width-of-known-glyph", m.GlyphWidthPDF("a") == w1)
	if hasNotdef {
		vpAssert("unknown-falls-back-to-notdef", m.GlyphWidthPDF("zzz") == w2)
	} else {
		vpAssert("unknown-without-notdef-is-zero", m.GlyphWidthPDF("zzz") == 0)
	}
	vpCover("done")
}

package afm

import "seehuhn.de/go/postscript/funit"

// vpSameGlyphInfo compares two glyphs field by field.
func vpSameGlyphInfo(a, b *GlyphInfo) bool {
	if a == nil || b == nil {
		return a == b
	}
	if a.WidthX != b.WidthX || a.BBox.LLx != b.BBox.LLx || a.BBox.LLy != b.BBox.LLy || a.BBox.URx != b.BBox.URx || a.BBox.URy != b.BBox.URy {
		return false
	}
	if len(a.Ligatures) != len(b.Ligatures) {
		return false
	}
	for k, v := range a.Ligatures {
		if w, ok := b.Ligatures[k]; !ok || w != v {
			return false
		}
	}
	return true
}

// vpCompareMetrics asserts, clause by clause, that b carries what a does.
func vpCompareMetrics(a, b *Metrics, prefix string) bool {
	ok := true
	check := func(label string, c bool) {
		vpAssert(prefix+label, c)
		if !c {
			ok = false
		}
	}
	check("header-names", a.FontName == b.FontName && a.FullName == b.FullName)
	check("header-version-and-notice", a.Version == b.Version && a.Notice == b.Notice)
	check("header-numbers", a.CapHeight == b.CapHeight && a.XHeight == b.XHeight && a.Ascent == b.Ascent && a.Descent == b.Descent &&
		a.UnderlinePosition == b.UnderlinePosition && a.UnderlineThickness == b.UnderlineThickness && a.ItalicAngle == b.ItalicAngle)
	check("header-fixed-pitch", a.IsFixedPitch == b.IsFixedPitch)
	sameGlyphs := len(a.Glyphs) == len(b.Glyphs)
	if sameGlyphs {
		for name, g := range a.Glyphs {
			if !vpSameGlyphInfo(g, b.Glyphs[name]) {
				sameGlyphs = false
			}
		}
	}
	check("glyph-widths-boxes-ligatures", sameGlyphs)
	sameEnc := true
	for c := 0; c < 256; c++ {
		x, y := ".notdef", ".notdef"
		if c < len(a.Encoding) {
			x = a.Encoding[c]
		}
		if c < len(b.Encoding) {
			y = b.Encoding[c]
		}
		if x != y {
			sameEnc = false
		}
	}
	check("glyph-codes", sameEnc)
	sameKern := len(a.Kern) == len(b.Kern)
	if sameKern {
		for i := range a.Kern {
			if a.Kern[i].Left != b.Kern[i].Left || a.Kern[i].Right != b.Kern[i].Right || a.Kern[i].Adjust != b.Kern[i].Adjust {
				sameKern = false
			}
		}
	}
	check("kerning-pairs-in-order", sameKern)
	return ok
}

func vpSameBytes(a, b []byte) bool {
	if len(a) != len(b) {
		return false
	}
	same := true
	for i := range a {
		if a[i] != b[i] {
			same = false
		}
	}
	return same
}

// C15 K1: write ; read of a metrics value with integral numbers in range and single-token names.
// One number (or flag, or code assignment) per path is symbolic over its whole range, the rest of
// the value is the fixed model of vpMetrics: re-reading gives equal metrics, clause by clause, and
// a second cycle writes the same bytes.
func VP_C15_roundtrip() {
	vpUnwind(6000)
	m := vpMetrics()
	m.Version, m.Notice = "001.002", "Copyright (c) 2024 Test Foundry"
	m.ItalicAngle = -12.5
	m.UnderlinePosition, m.UnderlineThickness = -100, 50
	switch vpChoose("optional-texts", 4) { // each optional header text present or absent on its own
	case 1:
		m.Version, m.Notice = "", ""
	case 2:
		m.Version = ""
	case 3:
		m.Notice = ""
	}
	big := func(tag string) float64 {
		v := vpInt32(tag)
		vpAssume(v >= -100000 && v <= 100000)
		return float64(v)
	}
	switch vpChoose("field", vpParam("FIELDS", 15)) {
	case 0:
		m.Glyphs["f"].WidthX = float64(vpInt16("wx"))
	case 1:
		m.Glyphs["f"].BBox.LLx = big("llx")
	case 2:
		m.Glyphs["i"].BBox.URy = big("ury")
	case 3:
		m.Kern[0].Adjust = 0
		m.Kern[1].Adjust = funit.Int16(vpInt16("adjust"))
	case 4:
		m.CapHeight = big("capheight")
	case 5:
		m.XHeight = big("xheight")
	case 6:
		m.Ascent = big("ascent")
	case 7:
		m.Descent = big("descent")
	case 8:
		m.UnderlinePosition = big("ulpos")
	case 9:
		m.UnderlineThickness = big("ulthick")
	case 10:
		m.IsFixedPitch = vpBool("fixed")
	case 11:
		// code assignment: glyph i moved to another code or left unencoded
		m.Encoding[105] = ".notdef"
		if c := []int{0, 32, 255, -1}[vpChoose("code", 4)]; c >= 0 {
			m.Encoding[c] = "i"
		}
	case 12:
		// no kerning data at all, a glyph without a box
		m.Kern = nil
		m.Glyphs["space"] = &GlyphInfo{WidthX: float64(vpInt16("spacewidth"))}
		m.Encoding[32] = "space"
	case 13:
		// a kerning pair may name a glyph the font does not have
		m.Kern = append([]*KernPair{{Left: "f", Right: "nosuchglyph", Adjust: funit.Int16(vpInt16("adjust"))}}, m.Kern...)
	default:
		m.Glyphs["f"].BBox.LLy = big("lly")
		m.Glyphs["f"].BBox.URx = big("urx")
	}
	w := &vpWriter{failAt: -1}
	err := m.Write(w)
	vpAssert("write-succeeds", err == nil)
	if err != nil {
		return
	}
	m2, err := Read(&vpReader{data: w.out, faultAt: -1, name: "first"})
	vpAssert("own-output-is-accepted", err == nil && m2 != nil)
	if err != nil || m2 == nil {
		return
	}
	if !vpCompareMetrics(m, m2, "reread:") {
		return
	}
	w2 := &vpWriter{failAt: -1}
	err = m2.Write(w2)
	vpAssert("second-cycle-changes-nothing", err == nil && vpSameBytes(w.out, w2.out))
	vpCover("done")
}

// vpIndependentAFM is an AFM text as another producer might lay it out: other key order, tabs and
// runs of blanks, CR LF line ends, comment lines, keys this reader ignores, and five numbers with
// symbolic decimal digits ('#').
func vpIndependentAFM(layout int) ([]byte, []byte) {
	eol := "\n"
	if layout == 1 {
		eol = "\r\n"
	}
	lines := []string{
		"StartFontMetrics 4.1",
		"Comment produced by an independent writer",
		"FontName   Indie-Bold",
		"FullName Indie  Sans\tBold",
		"FamilyName Indie",
		"Weight Bold",
		"Version 002.000",
		"Notice (c) Somebody.  All rights reserved.",
		"ItalicAngle 0",
		"IsFixedPitch false",
		"FontBBox -50 -200 1000 900",
		"UnderlinePosition -1##",
		"UnderlineThickness 50",
		"EncodingScheme AdobeStandardEncoding",
		"CapHeight 700",
		"XHeight 480",
		"Ascender 720",
		"Descender -210",
		"StartCharMetrics 3",
		"C 32 ; WX 2## ; N space ; B 0 0 0 0 ;",
		"N A;WX 6#0;C 65;B 10 0 59# 700;",
		"C -1 ;\tWX 500 ;\tN Aogonek ;\tB 10 -200 590 700 ; L x y ;",
		"EndCharMetrics",
		"StartKernData",
		"StartKernPairs 2",
		"KPX A space -4#",
		"KPX   space   A   -7",
		"EndKernPairs",
		"EndKernData",
		"EndFontMetrics",
	}
	if layout == 2 {
		// header keys in another order, no final line end
		lines[2], lines[14] = lines[14], lines[2]
		lines[6], lines[16] = lines[16], lines[6]
	}
	if layout == 3 {
		// the kerning section ahead of the character metrics
		var moved []string
		moved = append(moved, lines[:18]...)
		moved = append(moved, lines[23:29]...)
		moved = append(moved, lines[18:23]...)
		moved = append(moved, lines[29:]...)
		lines = moved
	}
	var text []byte
	for i, l := range lines {
		text = append(text, l...)
		if layout != 2 || i+1 < len(lines) {
			text = append(text, eol...)
		}
	}
	var digits []byte
	for i, c := range text {
		if c == '#' {
			d := vpByte("digit" + string(rune('a'+len(digits))))
			vpAssume(d >= '0' && d <= '9')
			text[i] = d
			digits = append(digits, d-'0')
		}
	}
	if layout == 3 {
		// digits are reported in the order of the standard layout (the kerning digit last)
		digits = append(append(append([]byte{}, digits[:2]...), digits[3:]...), digits[2])
	}
	return text, digits
}

// C15 K2: the reader understands the data of an independently laid out file (four layouts,
// seven symbolic digits), and for such an accepted input one write/read cycle preserves names and
// texts and the (integral) numbers, and a second cycle changes nothing.
func VP_C15_independent() {
	vpUnwind(8000)
	text, d := vpIndependentAFM(vpChoose("layout", 4))
	m, err := Read(&vpReader{data: text, faultAt: -1, name: "indie"})
	vpAssert("independent-layout-accepted", err == nil && m != nil)
	if err != nil || m == nil {
		return
	}
	num := func(ds ...byte) float64 {
		v := 0
		for _, x := range ds {
			v = v*10 + int(x)
		}
		return float64(v)
	}
	vpAssert("indie:header-texts", m.FontName == "Indie-Bold" && m.FullName == "Indie Sans Bold" && m.Version == "002.000" &&
		m.Notice == "(c) Somebody. All rights reserved.")
	vpAssert("indie:header-numbers", m.UnderlinePosition == -num(1, d[0], d[1]) && m.UnderlineThickness == 50 && m.CapHeight == 700 &&
		m.XHeight == 480 && m.Ascent == 720 && m.Descent == -210 && m.ItalicAngle == 0 && !m.IsFixedPitch)
	sp, a, ao := m.Glyphs["space"], m.Glyphs["A"], m.Glyphs["Aogonek"]
	vpAssert("indie:glyphs", len(m.Glyphs) == 3 && sp != nil && a != nil && ao != nil)
	if sp == nil || a == nil || ao == nil {
		return
	}
	vpAssert("indie:widths", sp.WidthX == num(2, d[2], d[3]) && a.WidthX == num(6, d[4], 0) && ao.WidthX == 500)
	vpAssert("indie:boxes", a.BBox.LLx == 10 && a.BBox.LLy == 0 && a.BBox.URx == num(5, 9, d[5]) && a.BBox.URy == 700 &&
		ao.BBox.LLy == -200 && sp.BBox.URx == 0)
	vpAssert("indie:ligatures", len(ao.Ligatures) == 1 && ao.Ligatures["x"] == "y" && len(a.Ligatures) == 0)
	vpAssert("indie:codes", len(m.Encoding) == 256 && m.Encoding[32] == "space" && m.Encoding[65] == "A" && m.Encoding[0] == ".notdef" && m.Encoding[66] == ".notdef")
	vpAssert("indie:kerning", len(m.Kern) == 2 && m.Kern[0].Left == "A" && m.Kern[0].Right == "space" && float64(m.Kern[0].Adjust) == -num(4, d[6]) &&
		m.Kern[1].Left == "space" && m.Kern[1].Right == "A" && m.Kern[1].Adjust == -7)
	// one cycle preserves, a second changes nothing
	w := &vpWriter{failAt: -1}
	err = m.Write(w)
	vpAssert("write-succeeds", err == nil)
	if err != nil {
		return
	}
	m2, err := Read(&vpReader{data: w.out, faultAt: -1, name: "second"})
	vpAssert("own-output-is-accepted", err == nil && m2 != nil)
	if err != nil || m2 == nil {
		return
	}
	if !vpCompareMetrics(m, m2, "cycle:") {
		return
	}
	w2 := &vpWriter{failAt: -1}
	err = m2.Write(w2)
	vpAssert("second-cycle-changes-nothing", err == nil && vpSameBytes(w.out, w2.out))
	vpCover("done")
}

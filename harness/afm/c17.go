package afm

import "seehuhn.de/go/geom/rect"

func vpMetrics() *Metrics {
	return &Metrics{
		FontName: "Test-Regular", FullName: "Test Regular Bold", Ascent: 700, Descent: -200, CapHeight: 650, XHeight: 450,
		Glyphs: map[string]*GlyphInfo{
			".notdef": {WidthX: 500},
			"f":       {WidthX: 300, BBox: rect.Rect{LLx: 10, LLy: 0, URx: 290, URy: 700}, Ligatures: map[string]string{"i": "fi", "dotlessi": "fi", "l": "fl"}},
			"i":       {WidthX: 250, BBox: rect.Rect{LLx: 20, LLy: 0, URx: 200, URy: 650}},
		},
		Encoding: func() []string {
			e := make([]string, 256)
			for i := range e {
				e[i] = ".notdef"
			}
			e[102], e[105] = "f", "i"
			return e
		}(),
		Kern: []*KernPair{{Left: "f", Right: "i", Adjust: -20}, {Left: "i", Right: "f", Adjust: 5}},
	}
}

// C17 K1: writing the same metrics twice gives byte-identical output whatever order the maps are iterated in.
func VP_C17_afm_write() {
	vpUnwind(3000)
	m := vpMetrics()
	// two unencoded glyphs whose names differ in letter case only: the glyph list's last tie-break decides their order
	m.Glyphs["Eth"] = &GlyphInfo{WidthX: 700}
	m.Glyphs["eth"] = &GlyphInfo{WidthX: 500}
	// first run: one fixed iteration order; second run: every range over a map in arbitrary order
	w1 := &vpWriter{failAt: -1}
	e1 := m.Write(w1)
	tries := 1
	if !vpSymbolic() {
		tries = 64 // natively the runtime picks the orders: repeat to observe a difference
	}
	for t := 0; t < tries; t++ {
		vpMapOrder(true)
		w2 := &vpWriter{failAt: -1}
		e2 := m.Write(w2)
		vpMapOrder(false)
		vpAssert("writes-succeed", e1 == nil && e2 == nil)
		same := len(w1.out) == len(w2.out)
		if same {
			for i := range w1.out {
				if w1.out[i] != w2.out[i] {
					same = false
				}
			}
		}
		vpAssert("byte-identical-output", same)
		if !same {
			break
		}
	}
	vpCover("done")
}

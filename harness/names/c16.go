package names

// VP_INIT loads the lookup tables once per engine worker (their first-use initialisation is
// the subject of VP_C18_names_locking, not of these harnesses).
func VP_INIT() {
	if vpParam("WARM", 1) == 0 {
		return
	}
	glyph.lookup("glyphlist", "A")
	glyph.lookup("zapfdingbats", "a1")
	glyph.getEncode()
}

// K1: IsValid accepts exactly the names the AGL specification allows.
func VP_C16_isvalid() {
	vpUnwind(200)
	n := vpChoose("len", vpParam("MAXLEN", 33)+1)
	b := vpBytes("s", n)
	got := IsValid(string(b))
	// reference, byte-wise
	want := n >= 1 && n <= 31
	if want {
		c := b[0]
		if (c >= '0' && c <= '9') || c == '.' {
			want = false
		}
	}
	if want {
		for _, c := range b {
			ok := (c >= 'A' && c <= 'Z') || (c >= 'a' && c <= 'z') || (c >= '0' && c <= '9') || c == '.' || c == '_'
			if !ok {
				want = false
			}
		}
	}
	if n == 7 && b[0] == '.' && b[1] == 'n' && b[2] == 'o' && b[3] == 't' && b[4] == 'd' && b[5] == 'e' && b[6] == 'f' {
		want = true
	}
	vpAssert("isvalid-as-specified", got == want)
	if got {
		vpCover("accepted")
	} else {
		vpCover("rejected")
	}
}

func vpUpperHex(c byte) (rune, bool) {
	switch {
	case c >= '0' && c <= '9':
		return rune(c - '0'), true
	case c >= 'A' && c <= 'F':
		return rune(c-'A') + 10, true
	}
	return 0, false
}

func vpSameRunes(a, b []rune) bool {
	if len(a) != len(b) {
		return false
	}
	same := true
	for i := range a {
		if a[i] != b[i] {
			same = false
		}
	}
	return same
}

// K2: uniXXXX... and uXXXX..uXXXXXX forms, with suffix and underscore composition.
func VP_C16_uniforms() {
	vpUnwind(400)
	var name []byte
	var want []rune
	// first component: either form with symbolic digits (alphabet: any byte that is not a
	// separator and not a letter g-z: no glyph-list name has the shape u/uni + such characters,
	// lower-case hexadecimal digits included, so the component is not a glyph-list name)
	digit := func(tag string) byte {
		c := vpByte(tag)
		vpAssume(c != '.' && c != '_' && !(c >= 'g' && c <= 'z'))
		return c
	}
	switch vpChoose("form", 2) {
	case 0:
		k := 1 + vpChoose("groups", vpParam("GROUPS", 2))
		name = append(name, 'u', 'n', 'i')
		good := true
		var vals []rune
		for g := 0; g < k; g++ {
			var v rune
			for i := 0; i < 4; i++ {
				c := digit("d" + string(rune('0'+4*g+i)))
				name = append(name, c)
				h, ok := vpUpperHex(c)
				if !ok {
					good = false
				}
				v = v*16 + h
			}
			if v >= 0xD800 && v <= 0xDFFF {
				good = false
			}
			vals = append(vals, v)
		}
		if good {
			want = append(want, vals...)
		}
	default:
		nd := 4 + vpChoose("digits", 3)
		name = append(name, 'u')
		good := true
		var v rune
		for i := 0; i < nd; i++ {
			c := digit("d" + string(rune('0'+i)))
			name = append(name, c)
			h, ok := vpUpperHex(c)
			if !ok {
				good = false
			}
			v = v*16 + h
		}
		if good && (v < 0xD800 || (v >= 0xE000 && v < 0x110000)) {
			want = append(want, v)
		}
	}
	// optional second component from the glyph list, optional suffix
	switch vpChoose("tail", 4) {
	case 1:
		name = append(name, []byte("_A")...)
		want = append(want, 'A')
	case 2:
		name = append(name, []byte(".alt")...)
	case 3:
		name = append(name, []byte("_nosuchglyphname_a.sc")...)
		want = append(want, 'a')
	}
	got := ToUnicode(string(name), false)
	vpAssert("uni-forms-as-specified", vpSameRunes(got, want))
	vpCover("done")
}

// K2b: underscore composites of two uni-form components with symbolic digits: the text is the
// concatenation of the components' texts, and a malformed component contributes nothing -
// whatever part of it looked well-formed before the offending character.
func VP_C16_composite() {
	vpUnwind(600)
	var name []byte
	var want []rune
	digit := func(tag string) byte {
		c := vpByte(tag)
		vpAssume(c != '.' && c != '_' && c < 0x80 && !(c >= 'g' && c <= 'z'))
		return c
	}
	comp := func(tag string, groups int) {
		name = append(name, 'u', 'n', 'i')
		good := true
		var vals []rune
		for g := 0; g < groups; g++ {
			var v rune
			for i := 0; i < 4; i++ {
				c := digit(tag + string(rune('0'+4*g+i)))
				name = append(name, c)
				h, ok := vpUpperHex(c)
				if !ok {
					good = false
				}
				v = v*16 + h
			}
			if v >= 0xD800 && v <= 0xDFFF {
				good = false
			}
			vals = append(vals, v)
		}
		if good {
			want = append(want, vals...)
		}
	}
	sfx := vpChoose("suffix", 3)
	comp("a", 1+vpChoose("groupsA", vpParam("GROUPS_A", 2)))
	if sfx == 2 { // a period inside the first component: everything after it is ignored, later components included
		name = append(name, []byte(".x")...)
	}
	name = append(name, '_')
	nA := len(want)
	if vpParam("B_SYMBOLIC", 1) == 1 {
		comp("b", 1)
	} else {
		name = append(name, []byte("uni0042")...)
		want = append(want, 'B')
	}
	if sfx == 1 {
		name = append(name, []byte(".alt")...)
	}
	if sfx == 2 {
		want = want[:nA]
	}
	got := ToUnicode(string(name), false)
	vpAssert("composite-is-concatenation-of-components", vpSameRunes(got, want))
	vpCover("done")
}

// K3: every Unicode scalar value maps to a name that maps back to it (or to its documented
// compatibility expansion).
func VP_C16_roundtrip() {
	vpUnwind(400)
	r := rune(vpInt32("r"))
	vpAssume(r >= 0 && r <= 0x10FFFF && !(r >= 0xD800 && r <= 0xDFFF))
	lim := rune(vpParam("MAXRUNE", 0x10FFFF))
	vpAssume(r <= lim)
	name := FromUnicode(r)
	back := ToUnicode(name, false)
	want := expand(r)
	vpAssert("name-maps-back-to-the-character", vpSameRunes(back, want))
	vpAssert("name-is-a-valid-glyph-name", IsValid(name) || len(name) > 31)
	vpCover("done")
}

func vpParseHexRunes(s string) []rune {
	var out []rune
	var v rune
	have := false
	for i := 0; i < len(s); i++ {
		c := s[i]
		switch {
		case c >= '0' && c <= '9':
			v, have = v*16+rune(c-'0'), true
		case c >= 'A' && c <= 'F':
			v, have = v*16+rune(c-'A')+10, true
		case c >= 'a' && c <= 'f':
			v, have = v*16+rune(c-'a')+10, true
		default:
			if have {
				out = append(out, v)
			}
			v, have = 0, false
		}
	}
	if have {
		out = append(out, v)
	}
	return out
}

// K4: every entry of the Adobe glyph list and of the Zapf Dingbats list maps to the listed text.
func VP_C16_entries() {
	vpUnwind(400)
	vpStepLimit(20000000)
	dingbats := vpChoose("list", 2) == 1
	file := "agl-aglfn/glyphlist.txt"
	if dingbats {
		file = "agl-aglfn/zapfdingbats.txt"
	}
	var entries []string
	for _, l := range vpFileLines(file) {
		if len(l) > 0 && l[0] != '#' {
			entries = append(entries, l)
		}
	}
	first := vpParam("FIRST", 0)
	count := vpParam("COUNT", len(entries))
	if first+count > len(entries) {
		count = len(entries) - first
	}
	line := entries[first+vpChoose("entry", count)]
	semi := 0
	for semi < len(line) && line[semi] != ';' {
		semi++
	}
	name, want := line[:semi], vpParseHexRunes(line[semi+1:])
	// two documented corrections of the list
	if name == "Tcommaaccent" {
		want = []rune{0x021A}
	}
	if name == "tcommaaccent" {
		want = []rune{0x021B}
	}
	got := ToUnicode(name, dingbats)
	vpAssert("entry-maps-to-listed-text", vpSameRunes(got, want))
	got2 := ToUnicode(name+".alt", dingbats)
	vpAssert("suffix-ignored", vpSameRunes(got2, want))
	vpCover("done")
}

// C18 K2: lock discipline of the lazily loaded name tables.  Everything reachable from the
// package-level table holder that is written after package initialisation is written with the
// mutex held and never read without it; once loaded, look-ups write nothing.  With Go's mutex
// happens-before edges this is the sequential condition under which concurrent callers
// (including first use racing with use) are free of data races.
func VP_C18_names_locking() {
	vpUnwind(400)
	vpStepLimit(60000000)
	order := vpChoose("order", 3)
	calls := []func(){
		func() { ToUnicode("A_B.alt", false) },
		func() { FromUnicode('A') },
		func() { ToUnicode("a1", true) },
	}
	for k := 0; k < 3; k++ {
		calls[(k+order)%3]()
	}
	vpAssert("monitor:first-use-writes-happen-under-the-lock", vpUnlockedGlobalWrites() == 0)
	g1 := vpGlobalWrites()
	r := rune(vpInt32("r"))
	vpAssume(r >= 0x131 && r <= 0x134) // a plain letter, two compatibility ligatures, an AGLFN entry
	name := FromUnicode(r)
	ToUnicode(name, vpChoose("dingbats", 2) == 1)
	vpAssert("monitor:no-writes-once-loaded", vpGlobalWrites() == g1)
	vpAssert("monitor:written-state-never-read-without-the-lock", vpLockViolations() == 0)
	vpCover("done")
}

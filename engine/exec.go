package main

// Path-wise symbolic execution of go/ssa.

import (
	"fmt"
	"go/constant"
	"go/token"
	"go/types"
	"os"
	"regexp"
	"strings"
	"time"

	"golang.org/x/tools/go/ssa"
)

var debugUndecided = func() int {
	if os.Getenv("VP_DEBUG_UNDECIDED") != "" {
		return 40
	}
	return 0
}()

// PathEnd is thrown (as a Go panic) to end the current path.
type PathEnd struct {
	kind string // done | infeasible | unsupported | unwind | steplimit | panic | depth
	msg  string
}

type undo struct {
	loc  *Loc
	oldV Value
	m    *MapObj
	key  string
	oldE *mapEntry
	isM  bool
}

type deferred struct {
	fn   Value
	args []Value
	// invoke-mode
	method *types.Func
	recv   Value
}

type Frame struct {
	fn       *ssa.Function
	env      map[ssa.Value]Value
	defers   []deferred
	block    *ssa.BasicBlock
	prev     *ssa.BasicBlock
	caller   *Frame
	site     ssa.Instruction
	skipPhis bool
}

type Violation struct {
	Harness string
	Site    string // function:kind or assert label
	Kind    string // panic | assert | alloc | hang | depth
	Msg     string
	Model   map[string]uint64
	Choices map[string]int64
	Known   string // non-empty => matches this known finding
}

type Exec struct {
	w    *World
	prog *ssa.Program
	st   *Store
	sol  *Solver

	harness string
	prefix  []int64
	pos     int
	decs    []int64

	trail   []undo
	globals map[*ssa.Global]*Loc
	inited  map[*ssa.Package]bool
	initing bool

	pcond     []*Term
	inputs    []*Term
	choices   map[string]int64
	nameCount map[string]int

	steps      int
	stepLimit  int
	depth      int
	maxDepth   int
	unwind     map[ssa.Instruction]int
	unwindLim  int
	allocLimit int64
	covers     map[string]bool
	observed   []string
	nextID     int
	frame      *Frame
	mapOrder   bool
	depthLimit int

	// statistics for this worker
	stats Stats
	funcs map[*ssa.Function]int
	intr  map[*ssa.Function]intrinsicFn

	lazies               []*LazyV
	symKeys              int
	locks                map[*Loc]bool
	rlocks               map[*Loc]int
	nondet               int
	globalWrites         int
	unlockedGlobalWrites int
	decided              int
	guard                *Term
	spec                 int
	rawInit              bool
	realRange            map[int]rint
	realInt              map[int]bool
	emitted              []*Term
	unlockedReads        map[interface{}]bool
	writtenTagged        map[interface{}]bool
	lineScanners         map[*Loc]*lineScanner
	rngCache             map[int]rng
	decDigits            map[int]decDigit // per path: byte terms produced as decimal digits of a value (text.go)
	varRng               map[int]rng
	pathDeadline         time.Time
	regexps              map[*Loc]*regexp.Regexp
	noMerge              bool
	specBudget           int
	specMarkID           int
	pathsSinceRestart    int
}

type Stats struct {
	Paths, Infeasible, Unsupported, Unwind, StepLimit, Forks, Filtered, Merged int
	PathKinds                                                                  map[string]int
}

func (ex *Exec) end(kind, format string, a ...any) {
	panic(PathEnd{kind, fmt.Sprintf(format, a...)})
}

func (ex *Exec) unsupported(format string, a ...any) {
	where := ""
	if ex.frame != nil {
		where = " in " + ex.frame.fn.String()
	}
	panic(PathEnd{"unsupported", fmt.Sprintf(format, a...) + where})
}

// ---------------- decision log ----------------

// memo returns the next recorded decision, or computes and records a new one.
func (ex *Exec) memo(compute func() int64) int64 {
	if ex.spec > 0 {
		panic(mergeAbort{})
	}
	if ex.pos < len(ex.prefix) {
		d := ex.prefix[ex.pos]
		ex.pos++
		ex.decs = append(ex.decs, d)
		return d
	}
	d := compute()
	ex.decided++
	ex.pos++
	ex.decs = append(ex.decs, d)
	return d
}

func (ex *Exec) replaying() bool { return ex.pos < len(ex.prefix) }

// enqueueAlt schedules the alternative decision d at the current position.
func (ex *Exec) enqueueAlt(d int64) {
	p := make([]int64, len(ex.decs)+1)
	copy(p, ex.decs)
	p[len(ex.decs)] = d
	ex.w.push(ex.harness, p)
	ex.stats.Forks++
}

func (ex *Exec) assert(c *Term) {
	if c.Op == OConst {
		if c.C == 0 {
			ex.end("infeasible", "false asserted")
		}
		return
	}
	ex.pcond = append(ex.pcond, c)
	ex.learn(c, true)
	ex.sol.Assert(c)
}

func (ex *Exec) check(extra ...*Term) Result {
	t0 := time.Now()
	r := ex.sol.Check(extra...)
	if d := time.Since(t0); d > 300*time.Millisecond && os.Getenv("VP_SLOWQUERY") != "" && len(extra) > 0 {
		fmt.Fprintf(os.Stderr, "SLOWQUERY %.2fs %s pc=%d: %s\n", d.Seconds(), r, len(ex.pcond), termString(extra[0], 5))
	}
	if r == Unknown && !ex.sol.dead {
		r = ex.sol.OneShot(ex.pcond, extra, ex.inputs, 90)
	}
	return r
}

// branch decides a symbolic condition; forks when both sides are feasible.
func (ex *Exec) branch(c *Term) bool {
	if c.Op == OConst {
		return c.C != 0
	}
	d := ex.memo(func() int64 {
		switch ex.decide(c) {
		case 1:
			ex.stats.Filtered++
			return 3
		case 0:
			ex.stats.Filtered++
			return 2
		}
		if debugUndecided > 0 {
			debugUndecided--
			fmt.Fprintf(os.Stderr, "UNDECIDED %s  ranges: %v | %v\n", termString(c, 6), func() rng {
				if len(c.A) > 0 {
					return ex.rangeOf(c.A[0])
				}
				return rng{}
			}(), func() rng {
				if len(c.A) > 1 {
					return ex.rangeOf(c.A[1])
				}
				return rng{}
			}())
		}
		rt := ex.check(c)
		rf := ex.check(ex.st.Not(c))
		if rt == Unknown || rf == Unknown {
			ex.stats.PathKinds["unknown-branch"]++
		}
		tOK := rt != Unsat
		fOK := rf != Unsat
		switch {
		case tOK && fOK:
			ex.enqueueAlt(0)
			return 1
		case tOK:
			return 3 // forced true
		case fOK:
			return 2 // forced false
		}
		ex.end("infeasible", "both branches infeasible")
		return 0
	})
	switch d {
	case 1:
		ex.assert(c)
		return true
	case 0:
		ex.assert(ex.st.Not(c))
		return false
	case 3:
		return true
	default:
		return false
	}
}

// choose forks n ways.
func (ex *Exec) choose(name string, n int) int {
	if n <= 0 {
		ex.end("infeasible", "choose from empty set")
	}
	d := ex.memo(func() int64 {
		if pinned != nil && name != "" {
			return pinned.Choices[name]
		}
		for i := n - 1; i >= 1; i-- {
			ex.enqueueAlt(int64(i))
		}
		return 0
	})
	if name != "" {
		ex.choices[name] = d
	}
	return int(d)
}

const concretizeLimit = 24

// concretize returns a concrete value for t (signed interpretation of its width), forking over
// the feasible values.
func (ex *Exec) concretize(t *Term, what string) int64 {
	if t.Op == OConst {
		return t.I()
	}
	d := ex.memo(func() int64 {
		var vals []int64
		var excl []*Term
		for len(vals) < concretizeLimit {
			r := ex.check(excl...)
			if r != Sat {
				break
			}
			v, ok := ex.sol.Value(t)
			if !ok {
				break
			}
			vals = append(vals, sx(v, t.S.W))
			excl = append(excl, ex.st.Not(ex.st.Eq(t, ex.st.BV(t.S.W, v))))
		}
		if len(vals) == 0 {
			ex.end("infeasible", "concretize: no value")
		}
		if len(vals) >= concretizeLimit {
			// more values may exist: add boundary probes and record the reduction
			ex.w.note("concretize-sampled:" + what)
			for _, c := range []int64{0, 1, 2, 255, 256, 65535, 65536} {
				seen := false
				for _, v := range vals {
					if v == c {
						seen = true
					}
				}
				if !seen && ex.check(ex.st.Eq(t, ex.st.BVs(t.S.W, c))) == Sat {
					vals = append(vals, c)
				}
			}
		}
		for i := len(vals) - 1; i >= 1; i-- {
			ex.enqueueAlt(vals[i])
		}
		return vals[0]
	})
	ex.assert(ex.st.Eq(t, ex.st.BVs(t.S.W, d)))
	return d
}

// checkPanic asks whether the failing condition bad can hold; reports it and continues under !bad.
func (ex *Exec) checkPanic(kind string, bad *Term, msg string) {
	if bad.Op == OConst && bad.C == 0 {
		return
	}
	site := ex.siteName() + ":" + kind
	d := ex.memo(func() int64 {
		if ex.decide(bad) == 0 {
			ex.stats.Filtered++
			return 0
		}
		r := ex.check(bad)
		if r == Unsat {
			return 0
		}
		if r == Unknown {
			ex.stats.PathKinds["unknown-panic-check"]++
			ex.w.note("unknown verdict at " + site)
			return 0
		}
		ex.report("panic", site, msg, bad)
		return 1
	})
	_ = d
	nb := ex.st.Not(bad)
	if nb.Op == OConst && nb.C == 0 {
		ex.end("panic", "%s: %s", site, msg)
	}
	if d == 1 && !ex.replaying() {
		if ex.check(nb) == Unsat {
			ex.end("panic", "%s: %s (always)", site, msg)
		}
	}
	ex.assert(nb)
}

func (ex *Exec) siteName() string {
	if ex.frame == nil {
		return "?"
	}
	f := ex.frame.fn
	// skip harness-side prelude frames: report the innermost non-library function
	return f.String()
}

// report records a violation candidate; bad is satisfiable with the path condition.
func (ex *Exec) report(kind, site, msg string, bad *Term) {
	if ex.initing {
		return
	}
	kf := ex.w.knownFor(ex.harness, site)
	if len(kf) == 0 && !ex.w.wantViolation(ex.harness+"|"+site+"|") {
		return
	}
	// first model
	var extra []*Term
	if bad != nil {
		extra = append(extra, bad)
	}
	if ex.check(extra...) != Sat {
		return
	}
	model := ex.sol.Model(ex.inputs)
	v := &Violation{Harness: ex.harness, Site: site, Kind: kind, Msg: msg, Model: model, Choices: copyChoices(ex.choices)}
	if len(kf) == 0 {
		ex.w.addViolation(v)
		return
	}
	// known findings: classify the model, then look for a model outside every listed region
	var outside []*Term
	inKnown := ""
	for _, k := range kf {
		rt, ok := ex.parseRegion(k.Region)
		if !ok {
			continue
		}
		if val, ok := evalTerm(rt, model, map[int]uint64{}); ok && val != 0 && inKnown == "" {
			if ex.choicesMatch(k) {
				inKnown = k.ID
			}
		}
		if ex.choicesMatch(k) {
			outside = append(outside, ex.st.Not(rt))
		}
	}
	if inKnown == "" {
		ex.w.addViolation(v)
		return
	}
	v.Known = inKnown
	ex.w.addViolation(v)
	q := append(append([]*Term{}, extra...), outside...)
	if ex.check(q...) == Sat {
		m2 := ex.sol.Model(ex.inputs)
		ex.w.addViolation(&Violation{Harness: ex.harness, Site: site, Kind: kind, Msg: msg, Model: m2, Choices: copyChoices(ex.choices)})
	}
}

func copyChoices(m map[string]int64) map[string]int64 {
	r := make(map[string]int64, len(m))
	for k, v := range m {
		r[k] = v
	}
	return r
}

// ---------------- memory ----------------

func (ex *Exec) newLoc(t types.Type) *Loc {
	ex.nextID++
	l := &Loc{id: ex.nextID, born: ex.nextID, typ: t}
	switch u := t.Underlying().(type) {
	case *types.Struct:
		l.agg = true
		l.kids = make([]*Loc, u.NumFields())
		for i := range l.kids {
			l.kids[i] = ex.newLoc(u.Field(i).Type())
		}
	case *types.Array:
		l.agg = true
		l.elem = u.Elem()
		l.kids = make([]*Loc, int(u.Len()))
	default:
		l.v = ex.zero(t)
	}
	return l
}

// newArray creates backing storage for n elements of type elem.
func (ex *Exec) newArray(elem types.Type, n int) *Loc {
	ex.nextID++
	return &Loc{id: ex.nextID, born: ex.nextID, agg: true, elem: elem, kids: make([]*Loc, n), typ: types.NewArray(elem, int64(n))}
}

func (ex *Exec) kid(l *Loc, i int) *Loc {
	if i < 0 || i >= len(l.kids) {
		ex.unsupported("internal: kid index %d out of %d", i, len(l.kids))
	}
	k := l.kids[i]
	if k == nil {
		k = ex.newLoc(l.elem)
		k.tag = l.tag
		setBorn(k, l.born)
		l.kids[i] = k
	}
	return k
}

func setBorn(l *Loc, b int) {
	l.born = b
	for _, k := range l.kids {
		if k != nil {
			setBorn(k, b)
		}
	}
}

func (ex *Exec) zero(t types.Type) Value {
	switch u := t.Underlying().(type) {
	case *types.Basic:
		if w, _, ok := intWidth(u); ok {
			return ex.st.BV(w, 0)
		}
		switch {
		case u.Info()&types.IsBoolean != 0:
			return ex.st.False
		case u.Kind() == types.Float64 || u.Kind() == types.UntypedFloat:
			return ex.st.FP(0)
		case u.Kind() == types.Float32:
			return ex.st.FP(0)
		case u.Info()&types.IsString != 0:
			return StringV{}
		case u.Kind() == types.UnsafePointer:
			return (*Loc)(nil)
		case u.Kind() == types.UntypedNil:
			return nil
		}
	case *types.Pointer:
		return (*Loc)(nil)
	case *types.Slice:
		return SliceV{}
	case *types.Map:
		return (*MapObj)(nil)
	case *types.Signature:
		return (*FuncV)(nil)
	case *types.Interface:
		return IfaceV{}
	case *types.Chan:
		return Opaque{"chan"}
	case *types.Struct:
		f := make([]Value, u.NumFields())
		for i := range f {
			f[i] = ex.zero(u.Field(i).Type())
		}
		return StructV{f}
	case *types.Array:
		e := make([]Value, int(u.Len()))
		z := ex.zero(u.Elem())
		for i := range e {
			e[i] = z
		}
		return ArrayV{e}
	case *types.Tuple:
		tv := make(TupleV, u.Len())
		for i := range tv {
			tv[i] = ex.zero(u.At(i).Type())
		}
		return tv
	}
	ex.unsupported("zero value of %s", t)
	return nil
}

func (ex *Exec) load(l *Loc) Value {
	if l == nil {
		ex.end("panic", "%s:nil-deref: nil pointer dereference", ex.siteName())
	}
	if !l.agg {
		if l.tag != 0 && !ex.initing && len(ex.locks) == 0 {
			ex.unlockedReads[l] = true
		}
		return l.v
	}
	if _, ok := l.typ.Underlying().(*types.Struct); ok {
		f := make([]Value, len(l.kids))
		for i, k := range l.kids {
			f[i] = ex.load(k)
		}
		return StructV{f}
	}
	e := make([]Value, len(l.kids))
	var z Value
	for i, k := range l.kids {
		if k == nil {
			if z == nil {
				z = ex.zero(l.elem)
			}
			e[i] = z
		} else {
			e[i] = ex.load(k)
		}
	}
	return ArrayV{e}
}

func (ex *Exec) store(l *Loc, v Value) {
	if l == nil {
		ex.end("panic", "%s:nil-deref: nil pointer dereference", ex.siteName())
	}
	if l.tag != 0 && !ex.initing {
		ex.w.globalWrite(ex, l)
		ex.writtenTagged[l] = true
		ex.tagValue(v, map[interface{}]bool{})
	}
	if !l.agg {
		if ex.guard != nil && l.born <= ex.specMarkID {
			v = ex.mergeValue(ex.guard, v, l.v)
		}
		ex.trail = append(ex.trail, undo{loc: l, oldV: l.v})
		l.v = v
		return
	}
	switch x := v.(type) {
	case StructV:
		for i, k := range l.kids {
			ex.store(k, x.f[i])
		}
	case ArrayV:
		for i := range l.kids {
			ex.store(ex.kid(l, i), x.e[i])
		}
	default:
		ex.unsupported("store of %T into aggregate", v)
	}
}

func (ex *Exec) undoAll() {
	for i := len(ex.trail) - 1; i >= 0; i-- {
		u := ex.trail[i]
		if u.isM {
			if u.oldE == nil {
				delete(u.m.m, u.key)
			} else {
				u.m.m[u.key] = u.oldE
			}
		} else {
			u.loc.v = u.oldV
		}
	}
	ex.trail = ex.trail[:0]
}

// loadPtr / storePtr accept *Loc and *SymPtr.
func (ex *Exec) loadPtr(p Value) Value {
	switch x := p.(type) {
	case *Loc:
		return ex.load(x)
	case *SymPtr:
		// ite chain over the cells
		var res *Term
		for i := x.n - 1; i >= 0; i-- {
			cv, ok := ex.load(ex.kid(x.base, x.off+i)).(*Term)
			if !ok {
				return ex.load(ex.resolveSymPtr(x))
			}
			if res == nil {
				res = cv
			} else {
				res = ex.st.Ite(ex.st.Eq(x.idx, ex.st.BV(x.idx.S.W, uint64(i))), cv, res)
			}
		}
		if res == nil {
			ex.unsupported("symbolic index into empty array")
		}
		return res
	}
	ex.unsupported("load through %T", p)
	return nil
}

func (ex *Exec) storePtr(p Value, v Value) {
	switch x := p.(type) {
	case *Loc:
		ex.store(x, v)
		return
	case *SymPtr:
		nv, ok := v.(*Term)
		if !ok {
			ex.store(ex.resolveSymPtr(x), v)
			return
		}
		for i := 0; i < x.n; i++ {
			k := ex.kid(x.base, x.off+i)
			old, ok := ex.load(k).(*Term)
			if !ok {
				ex.store(ex.resolveSymPtr(x), v)
				return
			}
			ex.store(k, ex.st.Ite(ex.st.Eq(x.idx, ex.st.BV(x.idx.S.W, uint64(i))), nv, old))
		}
		return
	}
	ex.unsupported("store through %T", p)
}

func (ex *Exec) resolveSymPtr(x *SymPtr) *Loc {
	i := ex.concretize(x.idx, "index")
	return ex.kid(x.base, x.off+int(i))
}

func (ex *Exec) mapSet(m *MapObj, key string, e *mapEntry) {
	if ex.spec > 0 && m.id <= ex.specMarkID {
		abortMerge()
	}
	if m.tag != 0 && !ex.initing {
		ex.w.globalWriteMap(ex, m)
		ex.writtenTagged[m] = true
		if e != nil {
			ex.tagValue(e.val, map[interface{}]bool{})
		}
	}
	old := m.m[key]
	ex.trail = append(ex.trail, undo{isM: true, m: m, key: key, oldE: old})
	if e == nil {
		delete(m.m, key)
	} else {
		m.m[key] = e
	}
}

// keyString canonicalises a map key; ok=false if it has symbolic parts.
func (ex *Exec) keyString(v Value) (string, bool) {
	switch x := v.(type) {
	case *Term:
		if x.Op != OConst {
			return "", false
		}
		return fmt.Sprintf("i%d:%d", x.S.W, x.C), true
	case StringV:
		if !x.concrete() {
			return "", false
		}
		return "s:" + x.str(), true
	case IfaceV:
		if x.t == nil {
			return "n:", true
		}
		s, ok := ex.keyString(x.v)
		return "t:" + x.t.String() + "/" + s, ok
	case *LazyV:
		return ex.keyString(ex.force(x))
	case StructV:
		var sb strings.Builder
		sb.WriteString("{")
		for _, f := range x.f {
			s, ok := ex.keyString(f)
			if !ok {
				return "", false
			}
			sb.WriteString(s)
			sb.WriteString(";")
		}
		sb.WriteString("}")
		return sb.String(), true
	case ArrayV:
		var sb strings.Builder
		sb.WriteString("[")
		for _, f := range x.e {
			s, ok := ex.keyString(f)
			if !ok {
				return "", false
			}
			sb.WriteString(s)
			sb.WriteString(";")
		}
		sb.WriteString("]")
		return sb.String(), true
	case *Loc:
		if x == nil {
			return "p:nil", true
		}
		return fmt.Sprintf("p:%d", x.id), true
	}
	ex.unsupported("map key of type %T", v)
	return "", false
}

// ---------------- operands ----------------

func (ex *Exec) constValue(c *ssa.Const) Value {
	t := c.Type()
	if c.Value == nil {
		return ex.zero(t)
	}
	switch u := t.Underlying().(type) {
	case *types.Basic:
		if w, _, ok := intWidth(u); ok {
			if v, exact := constant.Int64Val(constant.ToInt(c.Value)); exact {
				return ex.st.BVs(w, v)
			}
			v, _ := constant.Uint64Val(constant.ToInt(c.Value))
			return ex.st.BV(w, v)
		}
		switch {
		case u.Info()&types.IsBoolean != 0:
			return ex.st.Bool(constant.BoolVal(c.Value))
		case u.Info()&types.IsFloat != 0:
			f, _ := constant.Float64Val(c.Value)
			if u.Kind() == types.Float32 {
				f = float64(float32(f))
			}
			return ex.st.FP(f)
		case u.Info()&types.IsString != 0:
			return StringV{s: constant.StringVal(c.Value)}
		}
	case *types.Interface:
		// typed constant converted to interface? (shouldn't happen: MakeInterface is explicit)
	}
	ex.unsupported("constant %s of type %s", c.Value, t)
	return nil
}

func (ex *Exec) get(fr *Frame, v ssa.Value) Value {
	switch x := v.(type) {
	case *ssa.Const:
		return ex.constValue(x)
	case *ssa.Global:
		return ex.globalLoc(x)
	case *ssa.Function:
		return &FuncV{fn: x}
	case *ssa.Builtin:
		return &FuncV{builtin: x.Name()}
	}
	r, ok := fr.env[v]
	if !ok {
		ex.unsupported("internal: no value for %s (%T)", v.Name(), v)
	}
	return r
}

func (ex *Exec) term(fr *Frame, v ssa.Value) *Term {
	x := ex.get(fr, v)
	t, ok := x.(*Term)
	if !ok {
		ex.unsupported("expected scalar, got %T for %s", x, v)
	}
	return t
}

func (ex *Exec) globalLoc(g *ssa.Global) *Loc {
	if l, ok := ex.globals[g]; ok {
		return l
	}
	pt := g.Type().(*types.Pointer)
	l := ex.newLoc(pt.Elem())
	l.name = g.String()
	ex.globals[g] = l
	if g.Pkg != nil && !ex.inited[g.Pkg] {
		ex.initPackage(g.Pkg)
	}
	return l
}

// initPackage runs the package initialiser (without chaining into imports; they are
// initialised on first touch of one of their globals).
func (ex *Exec) initPackage(p *ssa.Package) {
	if ex.inited[p] {
		return
	}
	ex.inited[p] = true
	if !ex.w.initAllowed(p) {
		return
	}
	init := p.Func("init")
	if init == nil || len(init.Blocks) == 0 {
		return
	}
	was := ex.initing
	ex.initing = true
	savedFrame := ex.frame
	savedGuard, savedSpec := ex.guard, ex.spec
	ex.guard, ex.spec = nil, 0
	mark := len(ex.trail)
	func() {
		defer func() {
			ex.initing = was
			ex.frame = savedFrame
			ex.guard, ex.spec = savedGuard, savedSpec
			if r := recover(); r != nil {
				if pe, ok := r.(PathEnd); ok {
					ex.w.note(fmt.Sprintf("init of %s incomplete: %s %s", p.Pkg.Path(), pe.kind, pe.msg))
					return
				}
				panic(r)
			}
		}()
		ex.rawInit = true
		ex.call(init, nil, nil)
	}()
	// writes during init are permanent for this worker
	ex.trail = ex.trail[:mark]
}

// ---------------- interpreter ----------------

func (ex *Exec) call(fn *ssa.Function, args []Value, env []Value) Value {
	if fn.Pkg != nil && fn.Name() == "init" && fn.Synthetic != "" && fn.Pkg.Func("init") == fn && !ex.rawInit {
		ex.initPackage(fn.Pkg)
		return nil
	}
	ex.rawInit = false
	h, cached := ex.intr[fn]
	if !cached {
		h = lookupIntrinsic(fn)
		ex.intr[fn] = h
	}
	if h != nil {
		return h(ex, fn, args)
	}
	return ex.callBody(fn, args, env)
}

// callBody interprets fn from its SSA (no intrinsic dispatch).
func (ex *Exec) callBody(fn *ssa.Function, args []Value, env []Value) Value {
	if len(fn.Blocks) == 0 {
		if ex.initing {
			return ex.opaqueResult(fn)
		}
		ex.unsupported("call of body-less function %s", fn)
	}
	if ex.w.opaquePkg(fn) {
		if ex.initing {
			return ex.opaqueResult(fn)
		}
		ex.unsupported("call into opaque package: %s", fn)
	}
	ex.depth++
	if ex.depth > ex.maxDepth {
		ex.maxDepth = ex.depth
	}
	if ex.depth > ex.depthLimit {
		ex.end("depth", "call depth %d exceeded in %s", ex.depthLimit, fn)
	}
	if ex.funcs != nil {
		ex.funcs[fn]++
	}
	fr := &Frame{fn: fn, env: make(map[ssa.Value]Value, 16), caller: ex.frame}
	for i, p := range fn.Params {
		fr.env[p] = args[i]
	}
	for i, fv := range fn.FreeVars {
		fr.env[fv] = env[i]
	}
	saved := ex.frame
	ex.frame = fr
	res := ex.run(fr)
	ex.frame = saved
	ex.depth--
	return res
}

func (ex *Exec) opaqueResult(fn *ssa.Function) Value {
	res := fn.Signature.Results()
	switch res.Len() {
	case 0:
		return nil
	case 1:
		return ex.opaqueOf(res.At(0).Type(), fn.String())
	}
	tv := make(TupleV, res.Len())
	for i := range tv {
		tv[i] = ex.opaqueOf(res.At(i).Type(), fn.String())
	}
	return tv
}

func (ex *Exec) opaqueOf(t types.Type, desc string) Value {
	switch t.Underlying().(type) {
	case *types.Pointer:
		return ex.newLoc(types.NewStruct(nil, nil))
	case *types.Interface:
		return IfaceV{}
	}
	return ex.zero(t)
}

func (ex *Exec) run(fr *Frame) Value {
	block := fr.fn.Blocks[0]
	for {
		fr.block = block
		var next *ssa.BasicBlock
		instrs := block.Instrs
		i := 0
		// phis first (parallel assignment)
		{
			n := 0
			for n < len(instrs) {
				if _, ok := instrs[n].(*ssa.Phi); !ok {
					break
				}
				n++
			}
			i = n
			skip := fr.skipPhis
			fr.skipPhis = false
			if n > 0 && !skip {
				if fr.prev == nil {
					ex.unsupported("internal: phi without predecessor")
				}
				pi := predIndex(block, fr.prev)
				vals := make([]Value, n)
				for k := 0; k < n; k++ {
					vals[k] = ex.get(fr, instrs[k].(*ssa.Phi).Edges[pi])
				}
				for k := 0; k < n; k++ {
					fr.env[instrs[k].(*ssa.Phi)] = vals[k]
				}
			}
		}
		for ; i < len(instrs); i++ {
			ex.steps++
			if ex.spec > 0 {
				ex.specBudget--
				if ex.specBudget < 0 {
					abortMerge()
				}
			}
			if ex.steps&1023 == 0 && !ex.pathDeadline.IsZero() && time.Now().After(ex.pathDeadline) {
				ex.end("timeout", "path exceeded its wall-clock allowance in %s", fr.fn)
			}
			if ex.steps > ex.stepLimit {
				ex.end("steplimit", "step limit %d exceeded in %s", ex.stepLimit, fr.fn)
			}
			switch in := instrs[i].(type) {
			case *ssa.If:
				c := ex.term(fr, in.Cond)
				if c.Op != OConst {
					// settled by the interval domain (facts of the path condition): no region to merge
					if d := ex.decide(c); d >= 0 {
						ex.stats.Filtered++
						if d == 1 {
							next = block.Succs[0]
						} else {
							next = block.Succs[1]
						}
						break
					}
					if j, ret, isRet, ok := ex.tryMerge(fr, block, in, c); ok {
						ex.stats.Merged++
						if isRet {
							return ret
						}
						next = j
						fr.skipPhis = true
						break
					}
					if j, ok := ex.tryCondMerge(fr, block, in, c); ok {
						ex.stats.Merged++
						next = j
						fr.skipPhis = true
						break
					}
					ex.unwind[in]++
					if ex.unwind[in] > ex.unwindLim {
						ex.end("unwind", "unwinding bound %d exceeded at %s in %s", ex.unwindLim, ex.prog.Fset.Position(in.Pos()), fr.fn)
					}
				}
				if ex.branch(c) {
					next = block.Succs[0]
				} else {
					next = block.Succs[1]
				}
			case *ssa.Jump:
				next = block.Succs[0]
			case *ssa.Return:
				switch len(in.Results) {
				case 0:
					return nil
				case 1:
					return ex.get(fr, in.Results[0])
				}
				tv := make(TupleV, len(in.Results))
				for k, r := range in.Results {
					tv[k] = ex.get(fr, r)
				}
				return tv
			case *ssa.Panic:
				v := ex.get(fr, in.X)
				ex.ssaPanic(fr, v)
			case *ssa.RunDefers:
				ex.runDefers(fr)
			default:
				ex.exec(fr, instrs[i])
			}
			if next != nil {
				break
			}
		}
		if next == nil {
			ex.unsupported("internal: block without terminator")
		}
		fr.prev = block
		block = next
	}
}

func predIndex(b, pred *ssa.BasicBlock) int {
	for i, p := range b.Preds {
		if p == pred {
			return i
		}
	}
	panic("predIndex: not a predecessor")
}

func (ex *Exec) runDefers(fr *Frame) {
	for len(fr.defers) > 0 {
		d := fr.defers[len(fr.defers)-1]
		fr.defers = fr.defers[:len(fr.defers)-1]
		if d.method != nil {
			ex.invoke(d.recv, d.method, d.args)
		} else {
			ex.callValue(d.fn, d.args)
		}
	}
}

func (ex *Exec) ssaPanic(fr *Frame, v Value) {
	msg := showValue(v)
	if iv, ok := v.(IfaceV); ok {
		msg = showValue(iv.v)
	}
	if ex.initing {
		ex.end("panic", "explicit panic during init: %s", msg)
	}
	site := fr.fn.String() + ":explicit-panic"
	if ex.w.panicIsViolation(ex.harness) {
		ex.memo(func() int64 {
			ex.report("panic", site, msg, nil)
			return 1
		})
	}
	ex.end("panic", "%s: %s", site, msg)
}

func (ex *Exec) callValue(f Value, args []Value) Value {
	fv, ok := f.(*FuncV)
	if !ok || fv == nil {
		if ok && fv == nil {
			ex.end("panic", "%s:nil-func: call of nil func", ex.siteName())
		}
		ex.unsupported("call of %T", f)
	}
	if fv.builtin != "" {
		return ex.callBuiltin(fv.builtin, args, nil)
	}
	return ex.call(fv.fn, args, fv.env)
}

func (ex *Exec) invoke(recv Value, method *types.Func, args []Value) Value {
	iv := ex.ifaceOf(recv)
	if iv.t == nil {
		ex.end("panic", "%s:nil-deref: method call on nil interface", ex.siteName())
	}
	fn := ex.prog.LookupMethod(iv.t, method.Pkg(), method.Name())
	if fn == nil {
		ex.unsupported("no method %s on %s", method.Name(), iv.t)
	}
	return ex.call(fn, append([]Value{iv.v}, args...), nil)
}

func (ex *Exec) ifaceOf(v Value) IfaceV {
	switch x := v.(type) {
	case IfaceV:
		return x
	case *LazyV:
		return ex.force(x)
	}
	ex.unsupported("expected interface value, got %T", v)
	return IfaceV{}
}

func (ex *Exec) force(l *LazyV) IfaceV {
	if !l.forced {
		r := ex.callValue(l.gen, nil)
		l.val = ex.ifaceOf(r)
		l.forced = true
		// forced state must be undone at path end
		ex.lazies = append(ex.lazies, l)
	}
	return l.val
}

func (ex *Exec) exec(fr *Frame, instr ssa.Instruction) {
	switch in := instr.(type) {
	case *ssa.DebugRef:
	case *ssa.Alloc:
		pt := in.Type().(*types.Pointer)
		fr.env[in] = ex.newLoc(pt.Elem())
	case *ssa.UnOp:
		fr.env[in] = ex.unop(fr, in)
	case *ssa.BinOp:
		fr.env[in] = ex.binop(in.Op, in.X.Type(), ex.get(fr, in.X), ex.get(fr, in.Y), in.Y.Type())
	case *ssa.Store:
		ex.storePtr(ex.get(fr, in.Addr), ex.get(fr, in.Val))
	case *ssa.Call:
		fr.site = in
		fr.env[in] = ex.doCall(fr, &in.Call)
	case *ssa.Defer:
		c := &in.Call
		args := make([]Value, len(c.Args))
		for i, a := range c.Args {
			args[i] = ex.get(fr, a)
		}
		if c.IsInvoke() {
			fr.defers = append(fr.defers, deferred{method: c.Method, recv: ex.get(fr, c.Value), args: args})
		} else {
			fr.defers = append(fr.defers, deferred{fn: ex.get(fr, c.Value), args: args})
		}
	case *ssa.Go:
		ex.unsupported("go statement")
	case *ssa.FieldAddr:
		p := ex.get(fr, in.X)
		l, ok := p.(*Loc)
		if !ok {
			ex.unsupported("FieldAddr on %T", p)
		}
		if l == nil {
			ex.end("panic", "%s:nil-deref: nil pointer dereference (field)", ex.siteName())
		}
		fr.env[in] = l.kids[in.Field]
	case *ssa.Field:
		s := ex.get(fr, in.X).(StructV)
		fr.env[in] = s.f[in.Field]
	case *ssa.IndexAddr:
		fr.env[in] = ex.indexAddr(fr, in)
	case *ssa.Index:
		fr.env[in] = ex.index(fr, in)
	case *ssa.Lookup:
		fr.env[in] = ex.lookup(fr, in)
	case *ssa.Slice:
		fr.env[in] = ex.slice(fr, in)
	case *ssa.MakeSlice:
		fr.env[in] = ex.makeSlice(fr, in)
	case *ssa.MakeMap:
		mt := in.Type().Underlying().(*types.Map)
		ex.nextID++
		fr.env[in] = &MapObj{id: ex.nextID, keyT: mt.Key(), valT: mt.Elem(), m: map[string]*mapEntry{}}
	case *ssa.MapUpdate:
		m, _ := ex.get(fr, in.Map).(*MapObj)
		if m == nil {
			ex.end("panic", "%s:nil-map: assignment to entry in nil map", ex.siteName())
		}
		k := ex.get(fr, in.Key)
		ks := ex.mapKey(m, k)
		ex.mapSet(m, ks, &mapEntry{key: k, val: ex.get(fr, in.Value)})
	case *ssa.MakeClosure:
		env := make([]Value, len(in.Bindings))
		for i, b := range in.Bindings {
			env[i] = ex.get(fr, b)
		}
		fr.env[in] = &FuncV{fn: in.Fn.(*ssa.Function), env: env}
	case *ssa.MakeInterface:
		fr.env[in] = IfaceV{t: in.X.Type(), v: ex.get(fr, in.X)}
	case *ssa.ChangeInterface:
		fr.env[in] = ex.get(fr, in.X)
	case *ssa.ChangeType:
		fr.env[in] = ex.get(fr, in.X)
	case *ssa.Convert:
		fr.env[in] = ex.convert(ex.get(fr, in.X), in.X.Type(), in.Type())
	case *ssa.MultiConvert:
		fr.env[in] = ex.convert(ex.get(fr, in.X), in.X.Type(), in.Type())
	case *ssa.SliceToArrayPointer:
		ex.unsupported("SliceToArrayPointer")
	case *ssa.Extract:
		fr.env[in] = ex.get(fr, in.Tuple).(TupleV)[in.Index]
	case *ssa.TypeAssert:
		fr.env[in] = ex.typeAssert(fr, in)
	case *ssa.Range:
		fr.env[in] = ex.rangeStart(fr, in)
	case *ssa.Next:
		fr.env[in] = ex.rangeNext(fr, in)
	case *ssa.Phi:
		// phi in entry position without prev (merged join): value already set
		if _, ok := fr.env[in]; !ok {
			ex.unsupported("internal: phi without predecessor")
		}
	default:
		ex.unsupported("instruction %T", instr)
	}
}

func (ex *Exec) doCall(fr *Frame, c *ssa.CallCommon) Value {
	args := make([]Value, len(c.Args))
	for i, a := range c.Args {
		args[i] = ex.get(fr, a)
	}
	if c.IsInvoke() {
		return ex.invoke(ex.get(fr, c.Value), c.Method, args)
	}
	switch f := c.Value.(type) {
	case *ssa.Builtin:
		return ex.callBuiltin(f.Name(), args, c)
	case *ssa.Function:
		return ex.call(f, args, nil)
	}
	return ex.callValue(ex.get(fr, c.Value), args)
}

// ---------------- unary / binary ----------------

func (ex *Exec) unop(fr *Frame, in *ssa.UnOp) Value {
	x := ex.get(fr, in.X)
	switch in.Op {
	case token.MUL:
		return ex.loadPtr(x)
	case token.NOT:
		return ex.st.Not(x.(*Term))
	case token.SUB:
		t := x.(*Term)
		if t.S.K == KReal {
			return ex.relaxNeg(t)
		}
		if t.S.K == KFP {
			return ex.st.FUn(OFNeg, t)
		}
		return ex.st.Neg(t)
	case token.XOR:
		return ex.st.BNot(x.(*Term))
	}
	ex.unsupported("unary op %s", in.Op)
	return nil
}

func (ex *Exec) binop(op token.Token, xt types.Type, x, y Value, yt types.Type) Value {
	st := ex.st
	switch xv := x.(type) {
	case *Term:
		yv, ok := y.(*Term)
		if !ok {
			ex.unsupported("binop %s on %T,%T", op, x, y)
		}
		if xv.S.K == KReal || yv.S.K == KReal {
			return ex.relaxBinop(op, xv, yv)
		}
		if xv.S.K == KBool {
			switch op {
			case token.EQL:
				return st.Eq(xv, yv)
			case token.NEQ:
				return st.Not(st.Eq(xv, yv))
			case token.AND, token.LAND:
				return st.And(xv, yv)
			case token.OR, token.LOR:
				return st.Or(xv, yv)
			}
			ex.unsupported("bool binop %s", op)
		}
		if xv.S.K == KFP {
			switch op {
			case token.ADD:
				return st.FBin(OFAdd, xv, yv)
			case token.SUB:
				return st.FBin(OFSub, xv, yv)
			case token.MUL:
				return st.FBin(OFMul, xv, yv)
			case token.QUO:
				return st.FBin(OFDiv, xv, yv)
			case token.EQL:
				return st.FBin(OFEq, xv, yv)
			case token.NEQ:
				return st.Not(st.FBin(OFEq, xv, yv))
			case token.LSS:
				return st.FBin(OFLt, xv, yv)
			case token.LEQ:
				return st.FBin(OFLe, xv, yv)
			case token.GTR:
				return st.FBin(OFLt, yv, xv)
			case token.GEQ:
				return st.FBin(OFLe, yv, xv)
			}
			ex.unsupported("float binop %s", op)
		}
		w, signed, ok := intInfo(xt)
		if !ok {
			w = xv.S.W
			signed = true
		}
		switch op {
		case token.ADD:
			return st.Bin(OAdd, xv, yv)
		case token.SUB:
			return st.Bin(OSub, xv, yv)
		case token.MUL:
			return st.Bin(OMul, xv, yv)
		case token.QUO, token.REM:
			ex.checkPanic("div-zero", st.Eq(yv, st.BV(w, 0)), "integer divide by zero")
			var o Op
			switch {
			case op == token.QUO && signed:
				o = OSDiv
			case op == token.QUO:
				o = OUDiv
			case signed:
				o = OSRem
			default:
				o = OURem
			}
			return st.Bin(o, xv, yv)
		case token.AND:
			return st.Bin(OBAnd, xv, yv)
		case token.OR:
			return st.Bin(OBOr, xv, yv)
		case token.XOR:
			return st.Bin(OBXor, xv, yv)
		case token.AND_NOT:
			return st.Bin(OBAnd, xv, st.BNot(yv))
		case token.SHL, token.SHR:
			yw, ysigned, _ := intInfo(yt)
			if ysigned {
				ex.checkPanic("neg-shift", st.Bin(OSLt, yv, st.BV(yw, 0)), "negative shift amount")
			}
			var cnt *Term
			var big *Term = st.False
			if yw > w {
				big = st.Bin(OULe, st.BV(yw, uint64(w)), yv)
				cnt = st.Extract(yv, w-1, 0)
			} else {
				cnt = st.ZExt(yv, w)
				big = st.Bin(OULe, st.BV(w, uint64(w)), cnt)
			}
			var o Op
			switch {
			case op == token.SHL:
				o = OShl
			case signed:
				o = OAShr
			default:
				o = OLShr
			}
			r := st.Bin(o, xv, cnt)
			if big.Op == OConst && big.C == 0 {
				return r
			}
			var over *Term
			if o == OAShr {
				over = st.Bin(OAShr, xv, st.BV(w, uint64(w-1)))
			} else {
				over = st.BV(w, 0)
			}
			return st.Ite(big, over, r)
		case token.EQL:
			return st.Eq(xv, yv)
		case token.NEQ:
			return st.Not(st.Eq(xv, yv))
		case token.LSS:
			if signed {
				return st.Bin(OSLt, xv, yv)
			}
			return st.Bin(OULt, xv, yv)
		case token.LEQ:
			if signed {
				return st.Bin(OSLe, xv, yv)
			}
			return st.Bin(OULe, xv, yv)
		case token.GTR:
			if signed {
				return st.Bin(OSLt, yv, xv)
			}
			return st.Bin(OULt, yv, xv)
		case token.GEQ:
			if signed {
				return st.Bin(OSLe, yv, xv)
			}
			return st.Bin(OULe, yv, xv)
		}
		ex.unsupported("int binop %s", op)
	case StringV:
		yv := y.(StringV)
		switch op {
		case token.ADD:
			return ex.strConcat(xv, yv)
		case token.EQL:
			return ex.strEq(xv, yv)
		case token.NEQ:
			return st.Not(ex.strEq(xv, yv))
		case token.LSS:
			return ex.strLess(xv, yv, false)
		case token.LEQ:
			return ex.strLess(xv, yv, true)
		case token.GTR:
			return ex.strLess(yv, xv, false)
		case token.GEQ:
			return ex.strLess(yv, xv, true)
		}
	}
	// equality of everything else
	switch op {
	case token.EQL:
		return ex.valueEq(x, y)
	case token.NEQ:
		return ex.st.Not(ex.valueEq(x, y))
	}
	ex.unsupported("binop %s on %T,%T", op, x, y)
	return nil
}

// valueEq implements Go's == on non-scalar comparable values.
func (ex *Exec) valueEq(x, y Value) *Term {
	st := ex.st
	switch xv := x.(type) {
	case *Term:
		yv, ok := y.(*Term)
		if !ok {
			return st.False
		}
		if xv.S != yv.S {
			return st.False
		}
		return st.Eq(xv, yv)
	case StringV:
		yv, ok := y.(StringV)
		if !ok {
			return st.False
		}
		return ex.strEq(xv, yv)
	case *Loc:
		yv, ok := y.(*Loc)
		if !ok {
			if y == nil {
				return st.Bool(xv == nil)
			}
			ex.unsupported("pointer comparison with %T", y)
		}
		return st.Bool(xv == yv)
	case *SymPtr:
		ex.unsupported("comparison of symbolic pointer")
	case *MapObj:
		yv, _ := y.(*MapObj)
		return st.Bool(xv == yv)
	case *FuncV:
		yv, _ := y.(*FuncV)
		if xv == nil || yv == nil {
			return st.Bool(xv == nil && yv == nil)
		}
		ex.end("panic", "%s:uncomparable: comparing func values", ex.siteName())
	case SliceV:
		yv, ok := y.(SliceV)
		if ok && (xv.isNil() || yv.isNil()) {
			return st.Bool(xv.isNil() && yv.isNil())
		}
		ex.end("panic", "%s:uncomparable: comparing slice values", ex.siteName())
	case IfaceV, *LazyV:
		xi := ex.ifaceOf(x)
		var yi IfaceV
		switch y.(type) {
		case IfaceV, *LazyV:
			yi = ex.ifaceOf(y)
		default:
			ex.unsupported("interface compared with %T", y)
		}
		if xi.t == nil || yi.t == nil {
			return st.Bool(xi.t == nil && yi.t == nil)
		}
		if !types.Identical(xi.t, yi.t) {
			return st.False
		}
		if !types.Comparable(xi.t) {
			ex.memo(func() int64 {
				ex.report("panic", ex.siteName()+":uncomparable", "runtime error: comparing uncomparable type "+xi.t.String(), nil)
				return 1
			})
			ex.end("panic", "%s:uncomparable: comparing uncomparable type %s", ex.siteName(), xi.t)
		}
		return ex.valueEq(xi.v, yi.v)
	case StructV:
		yv := y.(StructV)
		r := st.True
		for i := range xv.f {
			r = st.And(r, ex.valueEq(xv.f[i], yv.f[i]))
		}
		return r
	case ArrayV:
		yv := y.(ArrayV)
		r := st.True
		for i := range xv.e {
			r = st.And(r, ex.valueEq(xv.e[i], yv.e[i]))
		}
		return r
	case Opaque:
		return st.Bool(x == y)
	case nil:
		switch yv := y.(type) {
		case nil:
			return st.True
		case *Loc:
			return st.Bool(yv == nil)
		}
	}
	ex.unsupported("equality on %T,%T", x, y)
	return nil
}

// ---------------- strings ----------------

func (ex *Exec) strBytes(s StringV) []*Term {
	if s.sym != nil {
		return s.sym
	}
	bs := make([]*Term, len(s.s))
	for i := 0; i < len(s.s); i++ {
		bs[i] = ex.st.BV(8, uint64(s.s[i]))
	}
	return bs
}

func (ex *Exec) mkString(bs []*Term) StringV {
	allc := true
	for _, b := range bs {
		if b.Op != OConst {
			allc = false
			break
		}
	}
	if allc {
		raw := make([]byte, len(bs))
		for i, b := range bs {
			raw[i] = byte(b.C)
		}
		return StringV{s: string(raw)}
	}
	if bs == nil {
		bs = []*Term{}
	}
	return StringV{sym: bs}
}

func (ex *Exec) strConcat(a, b StringV) StringV {
	if a.sym == nil && b.sym == nil {
		return StringV{s: a.s + b.s}
	}
	return ex.mkString(append(append([]*Term{}, ex.strBytes(a)...), ex.strBytes(b)...))
}

func (ex *Exec) strEq(a, b StringV) *Term {
	if a.Len() != b.Len() {
		return ex.st.False
	}
	if a.sym == nil && b.sym == nil {
		return ex.st.Bool(a.s == b.s)
	}
	ab, bb := ex.strBytes(a), ex.strBytes(b)
	r := ex.st.True
	for i := range ab {
		r = ex.st.And(r, ex.st.Eq(ab[i], bb[i]))
	}
	return r
}

// lexicographic a < b (or <=)
func (ex *Exec) strLess(a, b StringV, orEq bool) *Term {
	if a.sym == nil && b.sym == nil {
		if orEq {
			return ex.st.Bool(a.s <= b.s)
		}
		return ex.st.Bool(a.s < b.s)
	}
	return ex.bytesLess(ex.strBytes(a), ex.strBytes(b), orEq)
}

func (ex *Exec) bytesLess(ab, bb []*Term, orEq bool) *Term {
	st := ex.st
	n := len(ab)
	if len(bb) < n {
		n = len(bb)
	}
	// tail: all common bytes equal
	var res *Term
	if len(ab) < len(bb) {
		res = st.True
	} else if len(ab) == len(bb) {
		res = st.Bool(orEq)
	} else {
		res = st.False
	}
	for i := n - 1; i >= 0; i-- {
		res = st.Ite(st.Bin(OULt, ab[i], bb[i]), st.True, st.Ite(st.Eq(ab[i], bb[i]), res, st.False))
	}
	return res
}

// ---------------- conversions ----------------

func (ex *Exec) convert(x Value, from, to types.Type) Value {
	st := ex.st
	if t, ok := x.(*Term); ok && t.S.K == KReal {
		// RELAX: floats and float-derived integers are real terms
		if _, _, isInt := intInfo(to); isInt {
			if isFloat(from) {
				return ex.relaxTrunc(t)
			}
			return t
		}
		if isFloat(to) {
			return t
		}
		ex.unsupported("RELAX: conversion of a real-valued term to %s", to)
	}
	fu, tu := from.Underlying(), to.Underlying()
	// type params resolved by instantiation
	if fb, ok := fu.(*types.Basic); ok {
		if tb, ok := tu.(*types.Basic); ok {
			fw, fs, fint := intWidth(fb)
			tw, ts, tint := intWidth(tb)
			switch {
			case fint && tint:
				t := x.(*Term)
				if tw <= fw {
					return st.Extract(t, tw-1, 0)
				}
				if fs {
					return st.SExt(t, tw)
				}
				return ex.zextNoWrap(t, tw)
			case fint && isFloat(to):
				t := x.(*Term)
				var r *Term
				if fs {
					r = st.FFromS(t)
				} else if y := ex.zextNoWrap(t, 64); fw <= 32 && y.Op != OZExt && y.Op != OConst {
					// the unsigned value, as exact 64-bit integer arithmetic (see zextNoWrap)
					r = st.mkIntFloat(y, fw+1)
				} else {
					r = st.FFromU(t)
				}
				if tb.Kind() == types.Float32 {
					ex.unsupported("float32 conversion")
				}
				return r
			case isFloat(from) && tint:
				return ex.floatToInt(x.(*Term), tw, ts)
			case isFloat(from) && isFloat(to):
				if fb.Kind() == types.Float32 || tb.Kind() == types.Float32 {
					t := x.(*Term)
					if t.Op == OConst {
						return st.FP(float64(float32(t.F())))
					}
					ex.unsupported("float32 conversion")
				}
				return x
			case isString(from) && isString(to):
				return x
			case fint && isString(to):
				t := x.(*Term)
				if t.Op != OConst {
					ex.unsupported("string(rune) of symbolic value")
				}
				return StringV{s: string(rune(t.I()))}
			case fb.Kind() == types.UnsafePointer || tb.Kind() == types.UnsafePointer:
				ex.unsupported("unsafe.Pointer conversion")
			}
		}
		if isString(from) {
			if sl, ok := tu.(*types.Slice); ok {
				s := x.(StringV)
				eb, _ := sl.Elem().Underlying().(*types.Basic)
				if eb != nil && eb.Kind() == types.Uint8 {
					bs := ex.strBytes(s)
					arr := ex.newArray(sl.Elem(), len(bs))
					for i, b := range bs {
						ex.kid(arr, i).v = b
					}
					return SliceV{arr: arr, len: len(bs), cap: len(bs)}
				}
				if eb != nil && eb.Kind() == types.Int32 {
					if !s.concrete() {
						ex.unsupported("[]rune of symbolic string")
					}
					rs := []rune(s.str())
					arr := ex.newArray(sl.Elem(), len(rs))
					for i, r := range rs {
						ex.kid(arr, i).v = st.BVs(32, int64(r))
					}
					return SliceV{arr: arr, len: len(rs), cap: len(rs)}
				}
			}
		}
	}
	if sl, ok := fu.(*types.Slice); ok && isString(to) {
		s := x.(SliceV)
		eb, _ := sl.Elem().Underlying().(*types.Basic)
		if eb != nil && eb.Kind() == types.Uint8 {
			bs := make([]*Term, s.len)
			for i := 0; i < s.len; i++ {
				bs[i] = ex.load(ex.kid(s.arr, s.off+i)).(*Term)
			}
			return ex.mkString(bs)
		}
		if eb != nil && eb.Kind() == types.Int32 {
			rs := make([]rune, s.len)
			for i := 0; i < s.len; i++ {
				t := ex.load(ex.kid(s.arr, s.off+i)).(*Term)
				if t.Op != OConst {
					ex.unsupported("string([]rune) of symbolic runes")
				}
				rs[i] = rune(t.I())
			}
			return StringV{s: string(rs)}
		}
	}
	if _, ok := fu.(*types.Pointer); ok {
		if _, ok := tu.(*types.Pointer); ok {
			return x
		}
	}
	ex.unsupported("conversion %s -> %s", from, to)
	return nil
}

// floatToInt models amd64: signed targets use CVTTSD2SQ/SL (out of range => "integer indefinite").
func (ex *Exec) floatToInt(f *Term, tw int, signed bool) Value {
	st := ex.st
	if f.Op == OConst {
		v := f.F()
		if signed {
			switch tw {
			case 64:
				return st.BVs(64, int64(v))
			case 32:
				return st.BVs(32, int64(int32(v)))
			case 16:
				return st.BVs(16, int64(int16(v)))
			case 8:
				return st.BVs(8, int64(int8(v)))
			}
		} else {
			switch tw {
			case 64:
				return st.BV(64, uint64(v))
			case 32:
				return st.BV(32, uint64(uint32(v)))
			case 16:
				return st.BV(16, uint64(uint16(v)))
			case 8:
				return st.BV(8, uint64(uint8(v)))
			}
		}
	}
	// fast path: float known to be a small integer that fits the hardware conversion width
	{
		cw := 64
		if signed && tw <= 32 {
			cw = 32
		}
		if iv, b, ok := st.fpInt(f); ok && b <= cw {
			return st.Extract(iv, tw-1, 0)
		}
	}
	if signed {
		cw := 64
		if tw <= 32 {
			cw = 32
		}
		lim := float64(uint64(1) << uint(cw-1))
		inRange := st.And(st.FBin(OFLt, st.FP(-lim-1), f), st.FBin(OFLt, f, st.FP(lim)))
		if cw == 64 {
			// -2^63-1 is not representable; use >= -2^63
			inRange = st.And(st.FBin(OFLe, st.FP(-lim), f), st.FBin(OFLt, f, st.FP(lim)))
		}
		conv := st.FToS(f, cw)
		indef := st.BV(cw, uint64(1)<<uint(cw-1))
		r := st.Ite(inRange, conv, indef)
		return st.Extract(r, tw-1, 0)
	}
	// unsigned: precise in range, otherwise unconstrained
	lim := float64(uint64(1)<<63) * 2
	if tw < 64 {
		lim = float64(uint64(1) << uint(tw))
	}
	_ = lim
	ex.unsupported("float -> unsigned conversion of symbolic value")
	return nil
}

// ---------------- type assertions ----------------

func (ex *Exec) implements(dyn types.Type, it *types.Interface) bool {
	return types.Implements(dyn, it)
}

func (ex *Exec) typeAssert(fr *Frame, in *ssa.TypeAssert) Value {
	iv := ex.ifaceOf(ex.get(fr, in.X))
	ok := false
	var res Value
	if it, isI := in.AssertedType.Underlying().(*types.Interface); isI {
		if iv.t != nil && ex.implements(iv.t, it) {
			ok = true
			res = iv
		} else {
			res = IfaceV{}
		}
	} else {
		if iv.t != nil && types.Identical(iv.t, in.AssertedType) {
			ok = true
			res = iv.v
		} else {
			res = ex.zero(in.AssertedType)
		}
	}
	if in.CommaOk {
		return TupleV{res, ex.st.Bool(ok)}
	}
	if !ok {
		site := ex.siteName() + ":type-assert"
		ex.memo(func() int64 {
			ex.report("panic", site, "interface conversion failed", nil)
			return 1
		})
		ex.end("panic", "%s: interface conversion: %v is not %s", site, iv.t, in.AssertedType)
	}
	return res
}

// zextNoWrap zero-extends t to tw bits.  Where the interval domain (path-condition facts only)
// shows that the narrow arithmetic lost nothing, the extension is replaced by the same arithmetic
// on sign-extended leaves, so that "int32(byte(v+139)) - 139" becomes the sign extension of v and
// cancels in the simplifier instead of reaching the bit-blaster.
func (ex *Exec) zextNoWrap(t *Term, tw int) *Term {
	st := ex.st
	if ex.spec > 0 || t.S.W >= 63 || tw > 64 || (t.Op != OAdd && t.Op != OSub) {
		return st.ZExt(t, tw)
	}
	for _, constSigned := range []bool{false, true} {
		n := 0
		if y := ex.widen(t, tw, constSigned, &n); y != nil && n > 0 {
			if r := ex.rangeOf(y); r.sOK && r.slo >= 0 && r.shi < int64(1)<<uint(t.S.W) {
				return y
			}
		}
	}
	return st.ZExt(t, tw)
}

// widen returns a tw-bit term whose low t.S.W bits equal t, built from the sign-extended leaves of
// the additions/subtractions t consists of; nil when t has another shape.  n counts the leaves.
func (ex *Exec) widen(t *Term, tw int, constSigned bool, n *int) *Term {
	st := ex.st
	if *n > 64 {
		return nil
	}
	switch t.Op {
	case OConst:
		if constSigned {
			return st.BVs(tw, sx(t.C, t.S.W))
		}
		return st.BV(tw, t.C)
	case OExtract:
		if t.Q != 0 {
			return nil
		}
		*n++
		y := t.A[0]
		if y.S.W >= tw {
			return st.Extract(y, tw-1, 0)
		}
		return st.SExt(y, tw)
	case OAdd, OSub:
		a := ex.widen(t.A[0], tw, constSigned, n)
		if a == nil {
			return nil
		}
		b := ex.widen(t.A[1], tw, constSigned, n)
		if b == nil {
			return nil
		}
		return st.Bin(t.Op, a, b)
	case OMul:
		for k := 0; k < 2; k++ {
			if c := t.A[k]; c.Op == OConst {
				if a := ex.widen(t.A[1-k], tw, constSigned, n); a != nil {
					return st.Bin(OMul, a, st.BVs(tw, sx(c.C, c.S.W)))
				}
				return nil
			}
		}
	case OSExt:
		*n++
		return st.SExt(t.A[0], tw)
	}
	*n++
	return st.SExt(t, tw)
}

package main

// Hash-consed, simplifying term DAG with SMT-LIB2 printing.

import (
	"fmt"
	"math"
	"math/bits"
	"strings"
)

type Kind uint8

const (
	KBool Kind = iota
	KBV
	KFP // float64 only
)

type Sort struct {
	K Kind
	W int
}

var SBool = Sort{KBool, 0}
var SFP = Sort{KFP, 64}

func SBV(w int) Sort { return Sort{KBV, w} }

func (s Sort) SMT() string {
	switch s.K {
	case KBool:
		return "Bool"
	case KBV:
		return fmt.Sprintf("(_ BitVec %d)", s.W)
	case KReal:
		return "Real"
	default:
		return "(_ FloatingPoint 11 53)"
	}
}

type Op uint8

const (
	OConst Op = iota
	OVar
	ONot
	OAnd
	OOr
	OIte
	OEq
	OAdd
	OSub
	OMul
	OUDiv
	OSDiv
	OURem
	OSRem
	OBAnd
	OBOr
	OBXor
	OBNot
	ONeg
	OShl
	OLShr
	OAShr
	OULt
	OULe
	OSLt
	OSLe
	OExtract // P=hi Q=lo
	OZExt    // to width S.W
	OSExt
	OConcat
	// floating point
	OFAdd
	OFSub
	OFMul
	OFDiv
	OFNeg
	OFAbs
	OFLt
	OFLe
	OFEq
	OFIsNaN
	OFIsInf
	OFFromS // signed bv -> fp (RNE)
	OFFromU // unsigned bv -> fp
	OFToS   // fp -> signed bv width S.W (RTZ); out of range unspecified
	OFToU   // fp -> unsigned bv
	OFRound // P: 0 RNA(math.Round) 1 RTZ(Trunc) 2 RTP(Ceil) 3 RTN(Floor) 4 RNE
	OFBits  // fp -> bv64 (via fresh var constraint; printed specially)
	OFFromBits
	OFSqrt
)

var opNames = map[Op]string{
	ONot: "not", OAnd: "and", OOr: "or", OIte: "ite", OEq: "=",
	OAdd: "bvadd", OSub: "bvsub", OMul: "bvmul", OUDiv: "bvudiv", OSDiv: "bvsdiv",
	OURem: "bvurem", OSRem: "bvsrem", OBAnd: "bvand", OBOr: "bvor", OBXor: "bvxor",
	OBNot: "bvnot", ONeg: "bvneg", OShl: "bvshl", OLShr: "bvlshr", OAShr: "bvashr",
	OULt: "bvult", OULe: "bvule", OSLt: "bvslt", OSLe: "bvsle", OConcat: "concat",
	OFNeg: "fp.neg", OFAbs: "fp.abs", OFLt: "fp.lt", OFLe: "fp.leq", OFEq: "fp.eq",
	OFIsNaN: "fp.isNaN", OFIsInf: "fp.isInfinite",
}

type Term struct {
	ID   int
	Op   Op
	S    Sort
	A    []*Term
	C    uint64
	N    string
	P, Q int
}

func (t *Term) IsConst() bool { return t.Op == OConst }

// Store is a per-executor hash-consing table.
type Store struct {
	tab     map[string]*Term
	terms   []*Term
	vars    map[string]*Term
	intBits map[int]int  // signed bit bound of 64-bit terms produced by the IntFloat rewrite
	zeroish map[int]bool // float terms known to be +0 or -0 (finite value times a zero constant)
	True    *Term
	False   *Term
}

func NewStore() *Store {
	st := &Store{tab: map[string]*Term{}, vars: map[string]*Term{}, intBits: map[int]int{}, zeroish: map[int]bool{}}
	st.True = st.mk(&Term{Op: OConst, S: SBool, C: 1})
	st.False = st.mk(&Term{Op: OConst, S: SBool, C: 0})
	return st
}

func (st *Store) key(t *Term) string {
	var sb strings.Builder
	fmt.Fprintf(&sb, "%d|%d.%d|%d|%d|%d|%s", t.Op, t.S.K, t.S.W, t.C, t.P, t.Q, t.N)
	for _, a := range t.A {
		fmt.Fprintf(&sb, ",%d", a.ID)
	}
	return sb.String()
}

func (st *Store) mk(t *Term) *Term {
	k := st.key(t)
	if o, ok := st.tab[k]; ok {
		return o
	}
	t.ID = len(st.terms)
	st.terms = append(st.terms, t)
	st.tab[k] = t
	return t
}

func mask(w int) uint64 {
	if w >= 64 {
		return ^uint64(0)
	}
	return (uint64(1) << uint(w)) - 1
}

func sx(v uint64, w int) int64 {
	if w >= 64 {
		return int64(v)
	}
	sh := uint(64 - w)
	return int64(v<<sh) >> sh
}

func (st *Store) Bool(b bool) *Term {
	if b {
		return st.True
	}
	return st.False
}

func (st *Store) BV(w int, v uint64) *Term {
	return st.mk(&Term{Op: OConst, S: SBV(w), C: v & mask(w)})
}

func (st *Store) BVs(w int, v int64) *Term { return st.BV(w, uint64(v)) }

func (st *Store) FP(f float64) *Term {
	return st.mk(&Term{Op: OConst, S: SFP, C: math.Float64bits(f)})
}

func (st *Store) Var(name string, s Sort) *Term {
	if v, ok := st.vars[name]; ok {
		if v.S != s {
			panic(fmt.Sprintf("var %s redeclared with different sort", name))
		}
		return v
	}
	v := st.mk(&Term{Op: OVar, S: s, N: name})
	st.vars[name] = v
	return v
}

func (t *Term) F() float64 { return math.Float64frombits(t.C) }
func (t *Term) B() bool    { return t.C != 0 }
func (t *Term) I() int64   { return sx(t.C, t.S.W) }
func (t *Term) U() uint64  { return t.C }

// ---- evaluation on constants ----

func evalOp(op Op, s Sort, p, q int, a []*Term) (uint64, bool) {
	get := func(i int) uint64 { return a[i].C }
	w := 0
	if len(a) > 0 {
		w = a[0].S.W
	}
	switch op {
	case ONot:
		return get(0) ^ 1, true
	case OAnd:
		return get(0) & get(1), true
	case OOr:
		return get(0) | get(1), true
	case OIte:
		if get(0) != 0 {
			return get(1), true
		}
		return get(2), true
	case OEq:
		if a[0].S.K == KFP || a[0].S.K == KReal {
			return 0, false
		}
		return b2u(get(0) == get(1)), true
	case OAdd:
		return (get(0) + get(1)) & mask(w), true
	case OSub:
		return (get(0) - get(1)) & mask(w), true
	case OMul:
		return (get(0) * get(1)) & mask(w), true
	case OUDiv:
		if get(1) == 0 {
			return mask(w), true
		}
		return get(0) / get(1), true
	case OURem:
		if get(1) == 0 {
			return get(0), true
		}
		return get(0) % get(1), true
	case OSDiv:
		x, y := sx(get(0), w), sx(get(1), w)
		if y == 0 {
			if x >= 0 {
				return mask(w), true
			}
			return 1, true
		}
		if y == -1 {
			return uint64(-x) & mask(w), true
		}
		return uint64(x/y) & mask(w), true
	case OSRem:
		x, y := sx(get(0), w), sx(get(1), w)
		if y == 0 {
			return get(0), true
		}
		if y == -1 {
			return 0, true
		}
		return uint64(x%y) & mask(w), true
	case OBAnd:
		return get(0) & get(1), true
	case OBOr:
		return get(0) | get(1), true
	case OBXor:
		return get(0) ^ get(1), true
	case OBNot:
		return ^get(0) & mask(w), true
	case ONeg:
		return (-get(0)) & mask(w), true
	case OShl:
		if get(1) >= uint64(w) {
			return 0, true
		}
		return (get(0) << get(1)) & mask(w), true
	case OLShr:
		if get(1) >= uint64(w) {
			return 0, true
		}
		return get(0) >> get(1), true
	case OAShr:
		x := sx(get(0), w)
		sh := get(1)
		if sh >= uint64(w) {
			sh = uint64(w - 1)
		}
		if w == 0 {
			return 0, true
		}
		return uint64(x>>sh) & mask(w), true
	case OULt:
		return b2u(get(0) < get(1)), true
	case OULe:
		return b2u(get(0) <= get(1)), true
	case OSLt:
		return b2u(sx(get(0), w) < sx(get(1), w)), true
	case OSLe:
		return b2u(sx(get(0), w) <= sx(get(1), w)), true
	case OExtract:
		return (get(0) >> uint(q)) & mask(p-q+1), true
	case OZExt:
		return get(0), true
	case OSExt:
		return uint64(sx(get(0), w)) & mask(s.W), true
	case OConcat:
		return (get(0)<<uint(a[1].S.W) | get(1)) & mask(s.W), true
	case OFAdd:
		return math.Float64bits(a[0].F() + a[1].F()), true
	case OFSub:
		return math.Float64bits(a[0].F() - a[1].F()), true
	case OFMul:
		return math.Float64bits(a[0].F() * a[1].F()), true
	case OFDiv:
		return math.Float64bits(a[0].F() / a[1].F()), true
	case OFNeg:
		return math.Float64bits(-a[0].F()), true
	case OFAbs:
		return math.Float64bits(math.Abs(a[0].F())), true
	case OFSqrt:
		return math.Float64bits(math.Sqrt(a[0].F())), true
	case OFLt:
		return b2u(a[0].F() < a[1].F()), true
	case OFLe:
		return b2u(a[0].F() <= a[1].F()), true
	case OFEq:
		return b2u(a[0].F() == a[1].F()), true
	case OFIsNaN:
		return b2u(math.IsNaN(a[0].F())), true
	case OFIsInf:
		return b2u(math.IsInf(a[0].F(), 0)), true
	case OFFromS:
		return math.Float64bits(float64(sx(get(0), w))), true
	case OFFromU:
		return math.Float64bits(float64(get(0))), true
	case OFToS:
		f := a[0].F()
		lim := math.Ldexp(1, s.W-1)
		if math.IsNaN(f) || f >= lim || f < -lim {
			return 0, false
		}
		return uint64(int64(f)) & mask(s.W), true
	case OFToU:
		f := a[0].F()
		lim := math.Ldexp(1, s.W)
		if math.IsNaN(f) || f >= lim || f <= -1 {
			return 0, false
		}
		return uint64(f) & mask(s.W), true
	case OFRound:
		f := a[0].F()
		switch p {
		case 0:
			return math.Float64bits(math.Round(f)), true
		case 1:
			return math.Float64bits(math.Trunc(f)), true
		case 2:
			return math.Float64bits(math.Ceil(f)), true
		case 3:
			return math.Float64bits(math.Floor(f)), true
		case 4:
			return math.Float64bits(math.RoundToEven(f)), true
		}
	case ORAdd:
		return math.Float64bits(a[0].F() + a[1].F()), true
	case ORSub:
		return math.Float64bits(a[0].F() - a[1].F()), true
	case ORMul:
		return math.Float64bits(a[0].F() * a[1].F()), true
	case ORDiv:
		return math.Float64bits(a[0].F() / a[1].F()), true
	case ORNeg:
		return math.Float64bits(-a[0].F()), true
	case ORLt:
		return b2u(a[0].F() < a[1].F()), true
	case ORLe:
		return b2u(a[0].F() <= a[1].F()), true
	case OFBits:
		return get(0), true
	case OFFromBits:
		return get(0), true
	}
	return 0, false
}

func b2u(b bool) uint64 {
	if b {
		return 1
	}
	return 0
}

func allConst(a []*Term) bool {
	for _, x := range a {
		if x.Op != OConst {
			return false
		}
	}
	return true
}

func (st *Store) constOf(s Sort, c uint64) *Term {
	switch s.K {
	case KBool:
		return st.Bool(c != 0)
	case KBV:
		return st.BV(s.W, c)
	case KReal:
		return st.mk(&Term{Op: OConst, S: SReal, C: c})
	default:
		return st.mk(&Term{Op: OConst, S: SFP, C: c})
	}
}

func (st *Store) build(op Op, s Sort, p, q int, a ...*Term) *Term {
	if allConst(a) {
		if c, ok := evalOp(op, s, p, q, a); ok {
			return st.constOf(s, c)
		}
	}
	return st.mk(&Term{Op: op, S: s, A: a, P: p, Q: q})
}

// ---- boolean ----

func (st *Store) Not(a *Term) *Term {
	if a.Op == OConst {
		return st.Bool(a.C == 0)
	}
	if a.Op == ONot {
		return a.A[0]
	}
	return st.mk(&Term{Op: ONot, S: SBool, A: []*Term{a}})
}

func (st *Store) And(a, b *Term) *Term {
	if a.Op == OConst {
		if a.C == 0 {
			return st.False
		}
		return b
	}
	if b.Op == OConst {
		if b.C == 0 {
			return st.False
		}
		return a
	}
	if a == b {
		return a
	}
	if st.Not(a) == b {
		return st.False
	}
	return st.mk(&Term{Op: OAnd, S: SBool, A: []*Term{a, b}})
}

func (st *Store) Or(a, b *Term) *Term {
	if a.Op == OConst {
		if a.C != 0 {
			return st.True
		}
		return b
	}
	if b.Op == OConst {
		if b.C != 0 {
			return st.True
		}
		return a
	}
	if a == b {
		return a
	}
	if st.Not(a) == b {
		return st.True
	}
	return st.mk(&Term{Op: OOr, S: SBool, A: []*Term{a, b}})
}

func (st *Store) Implies(a, b *Term) *Term { return st.Or(st.Not(a), b) }

func (st *Store) Ite(c, a, b *Term) *Term {
	if c.Op == OConst {
		if c.C != 0 {
			return a
		}
		return b
	}
	if a == b {
		return a
	}
	if a.S != b.S {
		panic(fmt.Sprintf("ite sort mismatch %v %v", a.S, b.S))
	}
	if a.S.K == KBool {
		if a.Op == OConst && b.Op == OConst {
			if a.C != 0 {
				return c
			}
			return st.Not(c)
		}
		if a.Op == OConst {
			if a.C != 0 {
				return st.Or(c, b)
			}
			return st.And(st.Not(c), b)
		}
		if b.Op == OConst {
			if b.C != 0 {
				return st.Or(st.Not(c), a)
			}
			return st.And(c, a)
		}
	}
	if c.Op == ONot {
		return st.Ite(c.A[0], b, a)
	}
	return st.mk(&Term{Op: OIte, S: a.S, A: []*Term{c, a, b}})
}

func (st *Store) Eq(a, b *Term) *Term {
	if a.S != b.S {
		panic(fmt.Sprintf("eq sort mismatch %v %v", a.S, b.S))
	}
	if a.S.K == KFP {
		return st.build(OFEq, SBool, 0, 0, a, b)
	}
	if a == b {
		return st.True
	}
	if a.Op == OConst && b.Op == OConst {
		return st.Bool(a.C == b.C)
	}
	if a.S.K == KBool {
		if a.Op == OConst {
			a, b = b, a
		}
		if b.Op == OConst {
			if b.C != 0 {
				return a
			}
			return st.Not(a)
		}
	}
	if a.Op == OConst {
		a, b = b, a
	}
	if b.Op == OConst {
		// zext(x) == c
		if a.Op == OZExt {
			iw := a.A[0].S.W
			if b.C > mask(iw) {
				return st.False
			}
			return st.Eq(a.A[0], st.BV(iw, b.C))
		}
		// ite(c, k1, k2) == k
		if a.Op == OIte && a.A[1].Op == OConst && a.A[2].Op == OConst {
			t1 := a.A[1].C == b.C
			t2 := a.A[2].C == b.C
			switch {
			case t1 && t2:
				return st.True
			case t1:
				return a.A[0]
			case t2:
				return st.Not(a.A[0])
			default:
				return st.False
			}
		}
	}
	if a.ID > b.ID && b.Op != OConst {
		a, b = b, a
	}
	return st.mk(&Term{Op: OEq, S: SBool, A: []*Term{a, b}})
}

// ---- bit-vectors ----

func (st *Store) Bin(op Op, a, b *Term) *Term {
	if a.S != b.S {
		panic(fmt.Sprintf("binop %d sort mismatch %v %v", op, a.S, b.S))
	}
	w := a.S.W
	ac, bc := a.Op == OConst, b.Op == OConst
	switch op {
	case OAdd:
		if ac && a.C == 0 {
			return b
		}
		if bc && b.C == 0 {
			return a
		}
		if ac && !bc {
			a, b = b, a
			ac, bc = bc, ac
		}
		// (x + k1) + k2
		if bc && a.Op == OAdd && a.A[1].Op == OConst {
			return st.Bin(OAdd, a.A[0], st.BV(w, a.A[1].C+b.C))
		}
		if bc && a.Op == OSub && a.A[1].Op == OConst {
			return st.Bin(OAdd, a.A[0], st.BV(w, b.C-a.A[1].C))
		}
	case OSub:
		if bc && b.C == 0 {
			return a
		}
		if a == b {
			return st.BV(w, 0)
		}
		if bc {
			return st.Bin(OAdd, a, st.BV(w, -b.C))
		}
	case OMul:
		if ac && !bc {
			a, b = b, a
			ac, bc = bc, ac
		}
		if bc && b.C == 0 {
			return b
		}
		if bc && b.C == 1 {
			return a
		}
	case OBAnd:
		if ac && !bc {
			a, b = b, a
			ac, bc = bc, ac
		}
		if bc && b.C == 0 {
			return b
		}
		if bc && b.C == mask(w) {
			return a
		}
		if a == b {
			return a
		}
		// zext(x) & k where k covers x
		if bc && a.Op == OZExt && b.C&mask(a.A[0].S.W) == mask(a.A[0].S.W) {
			return a
		}
	case OBOr:
		if ac && !bc {
			a, b = b, a
			ac, bc = bc, ac
		}
		if bc && b.C == 0 {
			return a
		}
		if bc && b.C == mask(w) {
			return b
		}
		if a == b {
			return a
		}
	case OBXor:
		if ac && !bc {
			a, b = b, a
			ac, bc = bc, ac
		}
		if bc && b.C == 0 {
			return a
		}
		if a == b {
			return st.BV(w, 0)
		}
		if a.Op == OBXor {
			if a.A[0] == b {
				return a.A[1]
			}
			if a.A[1] == b {
				return a.A[0]
			}
		}
		if b.Op == OBXor {
			if b.A[0] == a {
				return b.A[1]
			}
			if b.A[1] == a {
				return b.A[0]
			}
		}
	case OShl, OLShr, OAShr:
		if bc && b.C == 0 {
			return a
		}
		if bc && b.C >= uint64(w) && op != OAShr {
			return st.BV(w, 0)
		}
		// (zext x) >> k with k >= width(x)
		if op == OLShr && bc && a.Op == OZExt && b.C >= uint64(a.A[0].S.W) {
			return st.BV(w, 0)
		}
	case OUDiv, OSDiv:
		if bc && b.C == 1 {
			return a
		}
	case OULt:
		if bc && b.C == 0 {
			return st.False
		}
		if a == b {
			return st.False
		}
		if bc && a.Op == OZExt && b.C > mask(a.A[0].S.W) {
			return st.True
		}
		if bc && a.Op == OZExt {
			return st.Bin(OULt, a.A[0], st.BV(a.A[0].S.W, b.C))
		}
		if ac && b.Op == OZExt {
			if a.C >= mask(b.A[0].S.W) {
				return st.False
			}
			return st.Bin(OULt, st.BV(b.A[0].S.W, a.C), b.A[0])
		}
	case OULe:
		if a == b {
			return st.True
		}
		if ac && a.C == 0 {
			return st.True
		}
		if bc && a.Op == OZExt {
			if b.C >= mask(a.A[0].S.W) {
				return st.True
			}
			return st.Bin(OULe, a.A[0], st.BV(a.A[0].S.W, b.C))
		}
		if ac && b.Op == OZExt {
			if a.C > mask(b.A[0].S.W) {
				return st.False
			}
			return st.Bin(OULe, st.BV(b.A[0].S.W, a.C), b.A[0])
		}
	case OSLt, OSLe:
		if a == b {
			return st.Bool(op == OSLe)
		}
		// signed comparisons of zero-extended values against non-negative constants
		if bc && a.Op == OZExt && a.A[0].S.W < w {
			k := sx(b.C, w)
			iw := a.A[0].S.W
			if k < 0 {
				return st.False
			}
			if uint64(k) > mask(iw) {
				return st.True
			}
			if op == OSLt {
				return st.Bin(OULt, a.A[0], st.BV(iw, uint64(k)))
			}
			return st.Bin(OULe, a.A[0], st.BV(iw, uint64(k)))
		}
		if ac && b.Op == OZExt && b.A[0].S.W < w {
			k := sx(a.C, w)
			iw := b.A[0].S.W
			if k < 0 {
				return st.True
			}
			if uint64(k) > mask(iw) {
				return st.False
			}
			if op == OSLt {
				return st.Bin(OULt, st.BV(iw, uint64(k)), b.A[0])
			}
			return st.Bin(OULe, st.BV(iw, uint64(k)), b.A[0])
		}
	}
	s := a.S
	switch op {
	case OULt, OULe, OSLt, OSLe:
		s = SBool
	}
	return st.build(op, s, 0, 0, a, b)
}

func (st *Store) BNot(a *Term) *Term {
	if a.Op == OBNot {
		return a.A[0]
	}
	return st.build(OBNot, a.S, 0, 0, a)
}

func (st *Store) Neg(a *Term) *Term {
	if a.Op == ONeg {
		return a.A[0]
	}
	return st.build(ONeg, a.S, 0, 0, a)
}

func (st *Store) Extract(a *Term, hi, lo int) *Term {
	if lo == 0 && hi == a.S.W-1 {
		return a
	}
	nw := hi - lo + 1
	if a.Op == OZExt {
		iw := a.A[0].S.W
		if lo >= iw {
			return st.BV(nw, 0)
		}
		if hi < iw {
			return st.Extract(a.A[0], hi, lo)
		}
		if lo == 0 {
			return st.ZExt(a.A[0], nw)
		}
	}
	if a.Op == OSExt {
		iw := a.A[0].S.W
		if hi < iw {
			return st.Extract(a.A[0], hi, lo)
		}
		if lo == 0 {
			return st.SExt(a.A[0], nw)
		}
	}
	if a.Op == OExtract {
		return st.Extract(a.A[0], hi+a.Q, lo+a.Q)
	}
	if a.Op == OConcat {
		lw := a.A[1].S.W
		if hi < lw {
			return st.Extract(a.A[1], hi, lo)
		}
		if lo >= lw {
			return st.Extract(a.A[0], hi-lw, lo-lw)
		}
	}
	// truncation distributes over +,-,*,&,|,^ when lo == 0
	if lo == 0 {
		switch a.Op {
		case OAdd, OSub, OMul, OBAnd, OBOr, OBXor:
			return st.Bin(a.Op, st.Extract(a.A[0], hi, 0), st.Extract(a.A[1], hi, 0))
		case OBNot:
			return st.BNot(st.Extract(a.A[0], hi, 0))
		case ONeg:
			return st.Neg(st.Extract(a.A[0], hi, 0))
		case OIte:
			return st.Ite(a.A[0], st.Extract(a.A[1], hi, 0), st.Extract(a.A[2], hi, 0))
		}
	}
	return st.build(OExtract, SBV(nw), hi, lo, a)
}

func (st *Store) ZExt(a *Term, w int) *Term {
	if a.S.W == w {
		return a
	}
	if a.S.W > w {
		return st.Extract(a, w-1, 0)
	}
	if a.Op == OZExt {
		return st.ZExt(a.A[0], w)
	}
	return st.build(OZExt, SBV(w), 0, 0, a)
}

func (st *Store) SExt(a *Term, w int) *Term {
	if a.S.W == w {
		return a
	}
	// sign-extending the low bits of a value known to fit them gives the value back
	if a.Op == OExtract && a.Q == 0 && a.A[0].S.W == w && st.sbits(a.A[0]) <= a.S.W {
		return a.A[0]
	}
	if a.S.W > w {
		return st.Extract(a, w-1, 0)
	}
	if a.Op == OZExt && a.A[0].S.W < a.S.W {
		return st.ZExt(a.A[0], w)
	}
	if a.Op == OSExt {
		return st.SExt(a.A[0], w)
	}
	return st.build(OSExt, SBV(w), 0, 0, a)
}

func (st *Store) Concat(a, b *Term) *Term {
	return st.build(OConcat, SBV(a.S.W+b.S.W), 0, 0, a, b)
}

// ---- floats ----

// sbits returns n such that the signed value of a lies in [-2^(n-1), 2^(n-1)).
func (st *Store) sbits(a *Term) int {
	if b, ok := st.intBits[a.ID]; ok {
		return b
	}
	switch a.Op {
	case OConst:
		v := sx(a.C, a.S.W)
		if v < 0 {
			v = ^v
		}
		return bits.Len64(uint64(v)) + 1
	case OZExt:
		if a.A[0].S.W < a.S.W {
			return a.A[0].S.W + 1
		}
	case OSExt:
		return st.sbits(a.A[0])
	case OAdd, OSub:
		// sums of narrow values stay narrow (the bound is below the width, so no wrap-around)
		b := st.sbits(a.A[0])
		if c := st.sbits(a.A[1]); c > b {
			b = c
		}
		if b+1 > a.S.W {
			b = a.S.W - 1
		}
		st.intBits[a.ID] = b + 1
		return b + 1
	case OMul:
		// product with a constant: the bit counts add (a bound, not exact)
		for k := 0; k < 2; k++ {
			if c := a.A[k]; c.Op == OConst {
				b := st.sbits(a.A[1-k]) + st.sbits(c)
				if b > a.S.W {
					b = a.S.W
				}
				st.intBits[a.ID] = b
				return b
			}
		}
	case ONeg:
		b := st.sbits(a.A[0])
		if b+1 > a.S.W {
			b = a.S.W - 1
		}
		st.intBits[a.ID] = b + 1
		return b + 1
	case OIte:
		if a.S.K != KBV {
			break
		}
		b := st.sbits(a.A[1])
		if c := st.sbits(a.A[2]); c > b {
			b = c
		}
		st.intBits[a.ID] = b
		return b
	}
	return a.S.W
}

// fpInt recognises float terms whose value is exactly a (small) integer and returns that
// integer as a 64-bit term together with its signed bit bound (IntFloat fast path).
// Values produced here are never -0, so +,-,compare and truncation agree with IEEE.
func (st *Store) fpInt(t *Term) (*Term, int, bool) {
	switch t.Op {
	case OConst:
		f := t.F()
		if f == math.Trunc(f) && math.Abs(f) <= 1<<52 && !(f == 0 && math.Signbit(f)) {
			c := st.BVs(64, int64(f))
			return c, st.sbits(c), true
		}
	case OFFromS:
		b := st.sbits(t.A[0])
		if b <= 54 {
			return st.SExt(t.A[0], 64), b, true
		}
	case OIte:
		if ia, ba, ok := st.fpInt(t.A[1]); ok {
			if ib, bb, ok := st.fpInt(t.A[2]); ok {
				if bb > ba {
					ba = bb
				}
				r := st.Ite(t.A[0], ia, ib)
				if r.Op != OConst {
					st.intBits[r.ID] = ba
				}
				return r, ba, true
			}
		}
	case OFFromU:
		a := t.A[0]
		if a.S.W <= 53 {
			return st.ZExt(a, 64), a.S.W + 1, true
		}
		if b := st.sbits(a); b <= 54 && a.S.W == 64 {
			// 64-bit term known to be small and (as it came from the rewrite) interpreted signed;
			// only safe when known non-negative: not tracked, so give up
			_ = b
		}
	}
	return nil, 0, false
}

// intViewLoose gives the integer value of a float expression built from IntFloat leaves with
// +, -, negation, abs, multiplication by integral constants and ite.  The view ignores the sign
// of zero, so it is used for comparisons only (fp.lt/leq/eq do not distinguish +0 and -0).
func (st *Store) intViewLoose(t *Term, depth int) (*Term, int, bool) {
	if iv, b, ok := st.fpInt(t); ok {
		return iv, b, true
	}
	if depth <= 0 {
		return nil, 0, false
	}
	switch t.Op {
	case OConst:
		f := t.F()
		if f == math.Trunc(f) && math.Abs(f) <= 1<<52 {
			c := st.BVs(64, int64(f))
			return c, st.sbits(c), true
		}
	case OFNeg:
		if iv, b, ok := st.intViewLoose(t.A[0], depth-1); ok {
			return st.Neg(iv), b + 1, true
		}
	case OFAbs:
		if iv, b, ok := st.intViewLoose(t.A[0], depth-1); ok {
			return st.Ite(st.Bin(OSLt, iv, st.BV(64, 0)), st.Neg(iv), iv), b + 1, true
		}
	case OFAdd, OFSub:
		ia, ba, ok1 := st.intViewLoose(t.A[0], depth-1)
		ib, bb, ok2 := st.intViewLoose(t.A[1], depth-1)
		if ok1 && ok2 {
			if bb > ba {
				ba = bb
			}
			if ba+1 <= 54 {
				if t.Op == OFAdd {
					return st.Bin(OAdd, ia, ib), ba + 1, true
				}
				return st.Bin(OSub, ia, ib), ba + 1, true
			}
		}
	case OFMul:
		ia, ba, ok1 := st.intViewLoose(t.A[0], depth-1)
		ib, bb, ok2 := st.intViewLoose(t.A[1], depth-1)
		if ok1 && ok2 && (t.A[0].Op == OConst || t.A[1].Op == OConst) && ba+bb <= 54 {
			return st.Bin(OMul, ia, ib), ba + bb, true
		}
	case OIte:
		ia, ba, ok1 := st.intViewLoose(t.A[1], depth-1)
		ib, bb, ok2 := st.intViewLoose(t.A[2], depth-1)
		if ok1 && ok2 {
			if bb > ba {
				ba = bb
			}
			return st.Ite(t.A[0], ia, ib), ba, true
		}
	}
	return nil, 0, false
}

func (st *Store) mkIntFloat(iv *Term, b int) *Term {
	if iv.Op != OConst {
		st.intBits[iv.ID] = b
	}
	return st.build(OFFromS, SFP, 0, 0, iv)
}

// neverNaN: a conservative syntactic test that a float term cannot be NaN (and is finite).
func (st *Store) neverNaN(t *Term, depth int) bool {
	if _, _, ok := st.fpInt(t); ok {
		return true
	}
	if depth <= 0 {
		return false
	}
	switch t.Op {
	case OConst:
		f := t.F()
		return !math.IsNaN(f) && !math.IsInf(f, 0)
	case OFNeg, OFAbs:
		return st.neverNaN(t.A[0], depth-1)
	case OFDiv:
		// finite / finite non-zero constant of magnitude >= 1: finite
		if c := t.A[1]; c.Op == OConst {
			f := c.F()
			return !math.IsNaN(f) && !math.IsInf(f, 0) && math.Abs(f) >= 1 && st.neverNaN(t.A[0], depth-1)
		}
	}
	return false
}

func (st *Store) FBin(op Op, a, b *Term) *Term {
	s := SFP
	switch op {
	case OFLt, OFLe, OFEq:
		s = SBool
	}
	if a == b && (op == OFEq || op == OFLe) && st.neverNaN(a, 4) {
		return st.True
	}
	if op == OFEq && a.Op == OFNeg && b.Op == OFNeg {
		return st.FBin(OFEq, a.A[0], b.A[0])
	}
	if op == OFEq && a.Op == OFDiv && b.Op == OFDiv && a.A[1] == b.A[1] && a.A[1].Op == OConst {
		// x/c == y/c for exact integers below 2^51 and a finite constant |c| >= 1: the quotients of
		// distinct integers differ by 1/c, more than two units in the last place, so they round
		// to different floats; equal integers give equal quotients
		if c := a.A[1].F(); !math.IsNaN(c) && !math.IsInf(c, 0) && math.Abs(c) >= 1 && math.Abs(c) <= 1e18 {
			if ia, ba, ok := st.fpInt(a.A[0]); ok && ba <= 51 {
				if ib, bb, ok := st.fpInt(b.A[0]); ok && bb <= 51 {
					return st.Eq(ia, ib)
				}
			}
		}
	}
	if a.Op != OConst || b.Op != OConst {
		// finite value times a zero constant: a zero of unknown sign
		if op == OFMul {
			for _, pair := range [][2]*Term{{a, b}, {b, a}} {
				if pair[1].Op == OConst && pair[1].F() == 0 {
					if _, _, ok := st.fpInt(pair[0]); ok {
						r := st.build(op, SFP, 0, 0, a, b)
						st.zeroish[r.ID] = true
						return r
					}
				}
			}
		}
		// adding or subtracting a zero of either sign to an IntFloat value (never -0) gives that value
		if op == OFAdd || op == OFSub {
			if st.zeroish[b.ID] {
				if _, _, ok := st.fpInt(a); ok {
					return a
				}
			}
			if st.zeroish[a.ID] && op == OFAdd {
				if _, _, ok := st.fpInt(b); ok {
					return b
				}
			}
		}
		// IntFloat against a finite non-integer constant: compare with its floor
		if op == OFLt || op == OFLe || op == OFEq {
			if b.Op == OConst {
				if ia, _, ok := st.fpInt(a); ok {
					c := b.F()
					if c != math.Trunc(c) && math.Abs(c) < 1<<52 {
						fl := st.BVs(64, int64(math.Floor(c)))
						if op == OFEq {
							return st.False
						}
						return st.Bin(OSLe, ia, fl) // ia < c  <=>  ia <= floor(c)  (also for <=)
					}
				}
			} else if a.Op == OConst {
				if ib, _, ok := st.fpInt(b); ok {
					c := a.F()
					if c != math.Trunc(c) && math.Abs(c) < 1<<52 {
						fl := st.BVs(64, int64(math.Floor(c)))
						if op == OFEq {
							return st.False
						}
						return st.Bin(OSLt, fl, ib) // c < ib  <=>  floor(c) < ib
					}
				}
			}
		}
		if op == OFLt || op == OFLe || op == OFEq {
			if ia, _, ok := st.intViewLoose(a, 12); ok {
				if ib, _, ok := st.intViewLoose(b, 12); ok {
					switch op {
					case OFEq:
						return st.Eq(ia, ib)
					case OFLt:
						return st.Bin(OSLt, ia, ib)
					default:
						return st.Bin(OSLe, ia, ib)
					}
				}
			}
		}
		if ia, ba, ok := st.fpInt(a); ok {
			if ib, bb, ok := st.fpInt(b); ok {
				mb := ba
				if bb > mb {
					mb = bb
				}
				switch op {
				case OFAdd:
					if mb+1 <= 54 {
						return st.mkIntFloat(st.Bin(OAdd, ia, ib), mb+1)
					}
				case OFSub:
					if mb+1 <= 54 {
						return st.mkIntFloat(st.Bin(OSub, ia, ib), mb+1)
					}
				case OFMul:
					// only by a positive constant (keeps the sign of zero right)
					if b.Op == OConst && b.F() > 0 && ba+bb <= 54 {
						return st.mkIntFloat(st.Bin(OMul, ia, ib), ba+bb)
					}
					if a.Op == OConst && a.F() > 0 && ba+bb <= 54 {
						return st.mkIntFloat(st.Bin(OMul, ia, ib), ba+bb)
					}
				case OFDiv:
					// (x*C)/C for a positive integral constant C and an exact product: x
					if b.Op == OConst && b.F() > 0 && ib.Op == OConst && ia.Op == OMul {
						for k := 0; k < 2; k++ {
							if c, x := ia.A[k], ia.A[1-k]; c.Op == OConst && c.C == ib.C {
								if bx := st.sbits(x); bx+bb <= 54 {
									return st.mkIntFloat(x, bx)
								}
							}
						}
					}
				case OFEq:
					return st.Eq(ia, ib)
				case OFLt:
					return st.Bin(OSLt, ia, ib)
				case OFLe:
					return st.Bin(OSLe, ia, ib)
				}
			}
		}
	}
	return st.build(op, s, 0, 0, a, b)
}

func (st *Store) FUn(op Op, a *Term) *Term {
	s := SFP
	switch op {
	case OFIsNaN, OFIsInf:
		s = SBool
	}
	if op == OFNeg && a.Op == OFNeg {
		return a.A[0]
	}
	if a.Op != OConst {
		if (op == OFIsNaN || op == OFIsInf) && st.neverNaN(a, 4) {
			return st.False
		}
		if ia, ba, ok := st.fpInt(a); ok {
			switch op {
			case OFIsNaN, OFIsInf:
				return st.False
			case OFAbs:
				return st.mkIntFloat(st.Ite(st.Bin(OSLt, ia, st.BV(64, 0)), st.Neg(ia), ia), ba+1)
			}
		}
	}
	return st.build(op, s, 0, 0, a)
}

func (st *Store) FRound(a *Term, mode int) *Term {
	if _, _, ok := st.fpInt(a); ok {
		return a
	}
	if a.Op == OFRound {
		return a
	}
	return st.build(OFRound, SFP, mode, 0, a)
}

func (st *Store) FFromS(a *Term) *Term { return st.build(OFFromS, SFP, 0, 0, a) }
func (st *Store) FFromU(a *Term) *Term { return st.build(OFFromU, SFP, 0, 0, a) }

// FToS converts with truncation to a signed w-bit integer; exact fast path for IntFloat
// values that fit (callers handle out-of-range semantics).
func (st *Store) FToS(a *Term, w int) *Term {
	if iv, b, ok := st.fpInt(a); ok && b <= w {
		return st.Extract(iv, w-1, 0)
	}
	return st.build(OFToS, SBV(w), 0, 0, a)
}
func (st *Store) FToU(a *Term, w int) *Term { return st.build(OFToU, SBV(w), 0, 0, a) }

// ---- printing ----

func bvLit(w int, v uint64) string {
	if w%4 == 0 {
		return fmt.Sprintf("#x%0*x", w/4, v&mask(w))
	}
	return fmt.Sprintf("#b%0*b", w, v&mask(w))
}

func fpLit(c uint64) string {
	return fmt.Sprintf("(fp #b%b #b%011b #b%052b)", c>>63, (c>>52)&0x7ff, c&((1<<52)-1))
}

func (t *Term) ref() string {
	switch t.Op {
	case OConst:
		switch t.S.K {
		case KBool:
			if t.C != 0 {
				return "true"
			}
			return "false"
		case KBV:
			return bvLit(t.S.W, t.C)
		case KReal:
			return realLit(t.F())
		default:
			return fpLit(t.C)
		}
	case OVar:
		if t.S.K == KReal && t.P == 1 {
			return "(to_real |" + t.N + "|)"
		}
		return "|" + t.N + "|"
	}
	return fmt.Sprintf("t%d", t.ID)
}

var rmNames = []string{"RNA", "RTZ", "RTP", "RTN", "RNE"}

// body prints the defining expression of a non-leaf term, referring to args by name.
func (t *Term) body() string {
	r := func(i int) string { return t.A[i].ref() }
	switch t.Op {
	case OExtract:
		return fmt.Sprintf("((_ extract %d %d) %s)", t.P, t.Q, r(0))
	case OZExt:
		return fmt.Sprintf("((_ zero_extend %d) %s)", t.S.W-t.A[0].S.W, r(0))
	case OSExt:
		return fmt.Sprintf("((_ sign_extend %d) %s)", t.S.W-t.A[0].S.W, r(0))
	case OFAdd:
		return fmt.Sprintf("(fp.add RNE %s %s)", r(0), r(1))
	case OFSub:
		return fmt.Sprintf("(fp.sub RNE %s %s)", r(0), r(1))
	case OFMul:
		return fmt.Sprintf("(fp.mul RNE %s %s)", r(0), r(1))
	case OFDiv:
		return fmt.Sprintf("(fp.div RNE %s %s)", r(0), r(1))
	case OFSqrt:
		return fmt.Sprintf("(fp.sqrt RNE %s)", r(0))
	case OFFromS:
		return fmt.Sprintf("((_ to_fp 11 53) RNE %s)", r(0))
	case OFFromU:
		return fmt.Sprintf("((_ to_fp_unsigned 11 53) RNE %s)", r(0))
	case OFToS:
		return fmt.Sprintf("((_ fp.to_sbv %d) RTZ %s)", t.S.W, r(0))
	case OFToU:
		return fmt.Sprintf("((_ fp.to_ubv %d) RTZ %s)", t.S.W, r(0))
	case OFRound:
		return fmt.Sprintf("(fp.roundToIntegral %s %s)", rmNames[t.P], r(0))
	case OFFromBits:
		return fmt.Sprintf("((_ to_fp 11 53) %s)", r(0))
	}
	if s, ok := relaxBody(t); ok {
		return s
	}
	name, ok := opNames[t.Op]
	if !ok {
		panic(fmt.Sprintf("no printer for op %d", t.Op))
	}
	var sb strings.Builder
	sb.WriteString("(")
	sb.WriteString(name)
	for i := range t.A {
		sb.WriteString(" ")
		sb.WriteString(r(i))
	}
	sb.WriteString(")")
	return sb.String()
}

// evalTerm evaluates t under a model (var name -> bits).
func evalTerm(t *Term, model map[string]uint64, memo map[int]uint64) (uint64, bool) {
	if v, ok := memo[t.ID]; ok {
		return v, true
	}
	var res uint64
	switch t.Op {
	case OConst:
		res = t.C
	case OVar:
		v, ok := model[t.N]
		if !ok {
			v = 0
		}
		res = v
	default:
		args := make([]*Term, len(t.A))
		for i, a := range t.A {
			v, ok := evalTerm(a, model, memo)
			if !ok {
				return 0, false
			}
			args[i] = &Term{Op: OConst, S: a.S, C: v}
		}
		v, ok := evalOp(t.Op, t.S, t.P, t.Q, args)
		if !ok {
			return 0, false
		}
		res = v
	}
	memo[t.ID] = res
	return res, true
}

var _ = bits.Len64

package main

// Symbolic text: decimal formatting of symbolic integers (fmt %d, %.0f of exact integer floats),
// whitespace splitting and line scanning over byte strings with symbolic bytes, and the contract
// of strconv.ParseFloat on [sign]digits tokens.  String lengths stay concrete on every path: a
// value whose number of digits is not determined by the path condition forks once per class.

import (
	"fmt"
	"go/types"
	"math"
	"regexp"
	"strings"

	"golang.org/x/tools/go/ssa"
)

var verbRe = regexp.MustCompile(`%([-+# 0]*)(\d*)(?:\.(\d+))?([a-zA-Z%])`)

var pow10 = func() [20]uint64 {
	var p [20]uint64
	p[0] = 1
	for i := 1; i < 20; i++ {
		p[i] = p[i-1] * 10
	}
	return p
}()

// decDigit records that a byte term is digit k (0 = units) of the nd-digit decimal text of the
// non-negative 64-bit term m, on the current path (where 10^(nd-1) <= m < 10^nd or m = 0, nd = 1).
// Reading such a text back as a number gives m: sum over k of ((m / 10^k) mod 10) * 10^k = m.
type decDigit struct {
	m     *Term
	k, nd int
}

// decimalOf returns m if bs is exactly the decimal text of m produced on this path.
func (ex *Exec) decimalOf(bs []*Term) (*Term, bool) {
	if len(bs) == 0 {
		return nil, false
	}
	var m *Term
	for i, b := range bs {
		d, ok := ex.decDigits[b.ID]
		if !ok || d.nd != len(bs) || d.k != len(bs)-1-i || (m != nil && d.m != m) {
			return nil, false
		}
		m = d.m
	}
	return m, true
}

// signedDecimalOf handles an optional constant sign in front of a recorded decimal text.
func (ex *Exec) signedDecimalOf(s StringV) (*Term, bool) {
	bs := ex.strBytes(s)
	neg := false
	if len(bs) > 1 && bs[0].Op == OConst && (bs[0].C == '-' || bs[0].C == '+') {
		neg = bs[0].C == '-'
		bs = bs[1:]
	}
	m, ok := ex.decimalOf(bs)
	if !ok {
		return nil, false
	}
	if neg {
		return ex.st.Neg(m), true
	}
	return m, true
}

// symDecimal gives the decimal text of the signed 64-bit term v (as fmt's %d prints it).
func (ex *Exec) symDecimal(v *Term) []*Term {
	st := ex.st
	if v.S.W < 64 {
		v = st.SExt(v, 64)
	}
	var out []*Term
	m := v
	if ex.branch(st.Bin(OSLt, v, st.BV(64, 0))) {
		out = append(out, st.BV(8, '-'))
		if ex.branch(st.Eq(v, st.BVs(64, math.MinInt64))) {
			return ex.strBytes(StringV{s: "-9223372036854775808"})
		}
		m = st.Neg(v)
	}
	nd := 1
	for nd < 19 && ex.branch(st.Bin(OULe, st.BV(64, pow10[nd]), m)) {
		nd++
	}
	// digits in the narrowest width that holds the magnitude on this path
	w := 64
	if r := ex.rangeOf(m); r.uOK && r.uhi < 1<<31 {
		w = 32
	} else if nd <= 9 {
		w = 32 // m < 10^9 < 2^31 by the digit-count decisions just taken
	}
	mm := m
	if w == 32 {
		mm = st.Extract(m, 31, 0)
	}
	for k := nd - 1; k >= 0; k-- {
		q := mm
		if k > 0 {
			q = st.Bin(OUDiv, mm, st.BV(w, pow10[k]))
		}
		d := q
		if k < nd-1 {
			d = st.Bin(OURem, q, st.BV(w, 10))
		}
		b := st.Bin(OAdd, st.Extract(d, 7, 0), st.BV(8, '0'))
		if b.Op != OConst {
			ex.decDigits[b.ID] = decDigit{m: m, k: k, nd: nd}
		}
		out = append(out, b)
	}
	return out
}

// symFormat is fmt.Sprintf for a concrete format and arguments some of which are symbolic.
// ok=false when a symbolic argument meets a verb that is not modelled.
func (ex *Exec) symFormat(format string, args []Value) (StringV, bool) {
	var out []*Term
	lit := func(s string) { out = append(out, ex.strBytes(StringV{s: s})...) }
	pos := 0
	ai := 0
	for _, m := range verbRe.FindAllStringSubmatchIndex(format, -1) {
		lit(format[pos:m[0]])
		pos = m[1]
		spec := format[m[0]:m[1]]
		flags, width, verb := format[m[2]:m[3]], format[m[4]:m[5]], format[m[8]:m[9]]
		prec := ""
		if m[6] >= 0 {
			prec = format[m[6]:m[7]]
		}
		if verb == "%" {
			lit("%")
			continue
		}
		if ai >= len(args) {
			lit("%!" + verb + "(MISSING)")
			continue
		}
		arg := args[ai]
		ai++
		if na, ok := ex.nativeArg(arg); ok {
			lit(fmt.Sprintf(spec, na))
			continue
		}
		if flags != "" || width != "" {
			return StringV{}, false
		}
		inner := arg
		var dyn types.Type
		if iv, ok := arg.(IfaceV); ok {
			inner, dyn = iv.v, iv.t
		}
		switch x := inner.(type) {
		case *Term:
			switch {
			case x.S.K == KBV && (verb == "d" || verb == "v") && prec == "":
				signed := true
				if dyn != nil {
					if b, ok := dyn.Underlying().(*types.Basic); ok {
						_, signed, _ = intWidth(b)
					}
				}
				v := x
				if !signed {
					if x.S.W >= 64 {
						return StringV{}, false
					}
					v = ex.st.ZExt(x, 64)
				}
				out = append(out, ex.symDecimal(v)...)
			case x.S.K == KFP && verb == "f" && prec == "0":
				iv, _, ok := ex.st.fpInt(x)
				if !ok {
					return StringV{}, false
				}
				// exact integer, never -0: %.0f prints it like %d
				out = append(out, ex.symDecimal(iv)...)
			case x.S.K == KBool && (verb == "t" || verb == "v"):
				if ex.branch(x) {
					lit("true")
				} else {
					lit("false")
				}
			default:
				return StringV{}, false
			}
		case StringV:
			if verb != "s" && verb != "v" || prec != "" {
				return StringV{}, false
			}
			out = append(out, ex.strBytes(x)...)
		default:
			return StringV{}, false
		}
	}
	lit(format[pos:])
	if ai < len(args) {
		return StringV{}, false
	}
	return ex.mkString(out), true
}

// isSpaceASCII: the white space of strings.Fields for a byte below 0x80 (bytes from 0x80 on
// would need the UTF-8 decoder: unsupported when symbolic).
func (ex *Exec) isSpaceByte(b *Term) bool {
	if b.Op == OConst {
		switch byte(b.C) {
		case ' ', '\t', '\n', '\v', '\f', '\r':
			return true
		}
		if b.C >= 0x80 {
			ex.unsupported("strings.Fields over non-ASCII bytes mixed with symbolic bytes")
		}
		return false
	}
	st := ex.st
	if r := ex.rangeOf(b); !(r.uOK && r.uhi < 0x80) {
		if ex.branch(st.Bin(OULe, st.BV(8, 0x80), b)) {
			ex.unsupported("strings.Fields over a symbolic non-ASCII byte")
		}
	}
	c := st.Or(st.Eq(b, st.BV(8, ' ')), st.And(st.Bin(OULe, st.BV(8, '\t'), b), st.Bin(OULe, b, st.BV(8, '\r'))))
	return ex.branch(c)
}

func (ex *Exec) symFields(s StringV) Value {
	var parts []StringV
	var cur []*Term
	for _, b := range ex.strBytes(s) {
		if ex.isSpaceByte(b) {
			if len(cur) > 0 {
				parts = append(parts, ex.mkString(cur))
				cur = nil
			}
		} else {
			cur = append(cur, b)
		}
	}
	if len(cur) > 0 {
		parts = append(parts, ex.mkString(cur))
	}
	arr := ex.newArray(types.Typ[types.String], len(parts))
	for k, p := range parts {
		ex.kid(arr, k).v = p
	}
	return SliceV{arr: arr, len: len(parts), cap: len(parts)}
}

// symLines splits bytes into lines the way bufio.ScanLines does (final line without newline
// included, one trailing CR dropped per line).
func (ex *Exec) symLines(bs []*Term) [][]*Term {
	st := ex.st
	var lines [][]*Term
	cur := []*Term{}
	flush := func() {
		if n := len(cur); n > 0 && ex.branch(st.Eq(cur[n-1], st.BV(8, '\r'))) {
			cur = cur[:n-1]
		}
		lines = append(lines, cur)
		cur = []*Term{}
	}
	for _, b := range bs {
		if ex.branch(st.Eq(b, st.BV(8, '\n'))) {
			flush()
		} else {
			cur = append(cur, b)
		}
	}
	if len(cur) > 0 {
		flush()
	}
	return lines
}

// readerBytes returns the bytes a harness reader (*vpReader) will deliver, if v is one.
func (ex *Exec) readerBytes(iv IfaceV) ([]*Term, bool) {
	p, ok := iv.t.(*types.Pointer)
	if !ok {
		return nil, false
	}
	n, ok := p.Elem().(*types.Named)
	if !ok || n.Obj().Name() != "vpReader" {
		return nil, false
	}
	stt, ok := n.Underlying().(*types.Struct)
	if !ok {
		return nil, false
	}
	l, ok := iv.v.(*Loc)
	if !ok {
		return nil, false
	}
	for i := 0; i < stt.NumFields(); i++ {
		if stt.Field(i).Name() == "data" {
			sl, ok := ex.load(ex.kid(l, i)).(SliceV)
			if !ok {
				return nil, false
			}
			return ex.byteSliceTerms(sl), true
		}
	}
	return nil, false
}

// parseFloatDigits is the contract of strconv.ParseFloat(s, 64) on tokens made of an optional
// sign and 1..15 decimal digits (decided per byte under the path condition) with at most one
// decimal point: the exact integer, or its correctly rounded quotient by the power of ten.
// ok=false for any other shape.
func (ex *Exec) parseFloatDigits(s StringV) (Value, bool) {
	st := ex.st
	bs := ex.strBytes(s)
	if len(bs) == 0 || len(bs) > 16 {
		return nil, false
	}
	neg := false
	isDigit := func(b *Term) bool {
		if r := ex.rangeOf(b); r.uOK && r.ulo >= '0' && r.uhi <= '9' {
			return true
		}
		if b.Op == OConst {
			return false
		}
		// not settled by the interval domain: ask the solver (a recorded decision)
		return ex.branch(st.And(st.Bin(OULe, st.BV(8, '0'), b), st.Bin(OULe, b, st.BV(8, '9'))))
	}
	if bs[0].Op == OConst && (bs[0].C == '-' || bs[0].C == '+') {
		neg = bs[0].C == '-'
		bs = bs[1:]
	}
	// one concrete decimal point: [sign]digits.digits is the correctly rounded quotient of the
	// digit string read as an integer and the power of ten (both exact in float64)
	frac := -1
	for i, b := range bs {
		if b.Op == OConst && b.C == '.' {
			frac = len(bs) - 1 - i
			bs = append(append([]*Term{}, bs[:i]...), bs[i+1:]...)
			break
		}
	}
	if len(bs) == 0 || len(bs) > 15 {
		return nil, false
	}
	val := st.BV(64, 0)
	if m, ok := ex.decimalOf(bs); ok && frac < 0 {
		val = m // the text is the decimal form of m: reading it gives m
	} else {
		for _, b := range bs {
			if !isDigit(b) {
				return nil, false
			}
			val = st.Bin(OAdd, st.Bin(OMul, val, st.BV(64, 10)), st.ZExt(st.Bin(OSub, b, st.BV(8, '0')), 64))
		}
	}
	var f *Term
	if frac > 0 {
		f = st.FBin(OFDiv, st.mkIntFloat(val, digitBits(len(bs))), st.FP(float64(pow10[frac])))
		if neg {
			f = st.FUn(OFNeg, f)
		}
		return TupleV{f, IfaceV{}}, true
	}
	if neg {
		// -0 for a zero magnitude, as ParseFloat gives
		if ex.branch(st.Eq(val, st.BV(64, 0))) {
			f = st.FP(math.Copysign(0, -1))
		} else {
			f = st.mkIntFloat(st.Neg(val), digitBits(len(bs)))
		}
	} else {
		f = st.mkIntFloat(val, digitBits(len(bs)))
	}
	return TupleV{f, IfaceV{}}, true
}

func init() {
	// (runs after the init of intrinsics.go: files are initialised in name order)
	func() {
		intrinsics["strings.Fields"] = func(ex *Exec, fn *ssa.Function, a []Value) Value {
			s := a[0].(StringV)
			if s.concrete() {
				return ex.stringSlice(strings.Fields(s.str()))
			}
			return ex.symFields(s)
		}
		prevPF := intrinsics["strconv.ParseFloat"]
		intrinsics["strconv.ParseFloat"] = func(ex *Exec, fn *ssa.Function, a []Value) Value {
			if s, ok := a[0].(StringV); ok && !s.concrete() {
				if r, ok := ex.parseFloatDigits(s); ok {
					ex.w.note("stub: strconv.ParseFloat on [sign]digits tokens with symbolic digits replaced by its contract (the exact integer)")
					return r
				}
				ex.unsupported("strconv.ParseFloat of a symbolic token that is not [sign]digits: %s", showValue(s))
			}
			return prevPF(ex, fn, a)
		}
	}()
}

// digitBits: a signed bit bound for (plus or minus) a number of n decimal digits.
func digitBits(n int) int {
	b := 2
	for v := uint64(1); n > 0; n-- {
		v *= 10
		for uint64(1)<<uint(b-1) <= v {
			b++
		}
	}
	return b
}

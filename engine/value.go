package main

import (
	"fmt"
	"go/types"
	"sort"
	"strings"

	"golang.org/x/tools/go/ssa"
)

// Value is one of:
//
//	*Term                      scalar (bool, intN/uintN, float64)
//	*Loc                       pointer (nil pointer is (*Loc)(nil))
//	*SymPtr                    pointer to an array element with symbolic index
//	SliceV, StringV, IfaceV    by value
//	*LazyV                     interface value produced on demand
//	*MapObj, *FuncV            references (nil allowed)
//	StructV, ArrayV, TupleV    aggregates by value
//	Opaque                     handle for things that are never inspected
type Value interface{}

type Loc struct {
	id   int
	born int // id horizon at creation (lazily created cells inherit their array's)
	typ  types.Type
	v    Value
	kids []*Loc
	agg  bool // struct or array
	elem types.Type
	tag  uint8 // monitors: 1 = reachable from a package-level variable after init
	name string
}

type SymPtr struct {
	base *Loc // array loc
	off  int  // offset of slice start in base
	n    int  // number of addressable cells from off
	idx  *Term
}

type SliceV struct {
	arr           *Loc
	off, len, cap int
}

func (s SliceV) isNil() bool { return s.arr == nil }

type StringV struct {
	s   string
	sym []*Term // non-nil => symbolic bytes (8-bit terms), s ignored
}

func (s StringV) Len() int {
	if s.sym != nil {
		return len(s.sym)
	}
	return len(s.s)
}

func (s StringV) concrete() bool {
	if s.sym == nil {
		return true
	}
	for _, b := range s.sym {
		if b.Op != OConst {
			return false
		}
	}
	return true
}

func (s StringV) str() string {
	if s.sym == nil {
		return s.s
	}
	bs := make([]byte, len(s.sym))
	for i, b := range s.sym {
		bs[i] = byte(b.C)
	}
	return string(bs)
}

type IfaceV struct {
	t types.Type // dynamic type; nil => nil interface
	v Value
}

type LazyV struct {
	gen    *FuncV
	forced bool
	val    IfaceV
}

type mapEntry struct {
	key Value
	val Value
}

type MapObj struct {
	id   int
	keyT types.Type
	valT types.Type
	m    map[string]*mapEntry
	tag  uint8
}

func (m *MapObj) sortedKeys() []string {
	ks := make([]string, 0, len(m.m))
	for k := range m.m {
		ks = append(ks, k)
	}
	sort.Strings(ks)
	return ks
}

type FuncV struct {
	fn      *ssa.Function
	env     []Value
	builtin string // for ssa.Builtin values
}

type StructV struct{ f []Value }
type ArrayV struct{ e []Value }
type TupleV []Value

type Opaque struct{ desc string }

// iterator state for Range/Next
type RangeIter struct {
	m    *MapObj
	keys []string
	str  StringV
	pos  int
	isS  bool
}

func showValue(v Value) string {
	switch x := v.(type) {
	case nil:
		return "nil"
	case *Term:
		if x.Op == OConst {
			switch x.S.K {
			case KBool:
				return fmt.Sprint(x.C != 0)
			case KBV:
				return fmt.Sprint(x.I())
			default:
				return fmt.Sprint(x.F())
			}
		}
		return "sym:" + x.ref()
	case StringV:
		if x.concrete() {
			return fmt.Sprintf("%q", x.str())
		}
		return fmt.Sprintf("symstr[%d]", len(x.sym))
	case IfaceV:
		if x.t == nil {
			return "nil-iface"
		}
		return fmt.Sprintf("iface(%s:%s)", x.t.String(), showValue(x.v))
	case SliceV:
		return fmt.Sprintf("slice[%d:%d:%d]", x.off, x.len, x.cap)
	case StructV:
		var ss []string
		for _, f := range x.f {
			ss = append(ss, showValue(f))
		}
		return "{" + strings.Join(ss, ",") + "}"
	case *Loc:
		if x == nil {
			return "nilptr"
		}
		return fmt.Sprintf("&loc%d", x.id)
	case *MapObj:
		if x == nil {
			return "nilmap"
		}
		return fmt.Sprintf("map%d[%d]", x.id, len(x.m))
	case *FuncV:
		if x == nil {
			return "nilfunc"
		}
		if x.fn != nil {
			return "func:" + x.fn.String()
		}
		return "builtin:" + x.builtin
	}
	return fmt.Sprintf("%T", v)
}

func intWidth(b *types.Basic) (w int, signed bool, ok bool) {
	switch b.Kind() {
	case types.Int8:
		return 8, true, true
	case types.Int16:
		return 16, true, true
	case types.Int32, types.UntypedRune:
		return 32, true, true
	case types.Int64, types.Int, types.UntypedInt:
		return 64, true, true
	case types.Uint8:
		return 8, false, true
	case types.Uint16:
		return 16, false, true
	case types.Uint32:
		return 32, false, true
	case types.Uint64, types.Uint, types.Uintptr:
		return 64, false, true
	}
	return 0, false, false
}

func isFloat(t types.Type) bool {
	b, ok := t.Underlying().(*types.Basic)
	return ok && (b.Kind() == types.Float64 || b.Kind() == types.Float32 || b.Kind() == types.UntypedFloat)
}

func isString(t types.Type) bool {
	b, ok := t.Underlying().(*types.Basic)
	return ok && b.Info()&types.IsString != 0
}

func isBool(t types.Type) bool {
	b, ok := t.Underlying().(*types.Basic)
	return ok && b.Info()&types.IsBoolean != 0
}

func intInfo(t types.Type) (w int, signed bool, ok bool) {
	b, ok2 := t.Underlying().(*types.Basic)
	if !ok2 {
		// type parameters etc.
		return 0, false, false
	}
	return intWidth(b)
}

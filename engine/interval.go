package main

// Domain filter: a sound interval abstraction of bit-vector terms (signed and unsigned value
// ranges, no wrap-around unless proven absent) used to decide comparisons before the solver is
// asked.  It only ever prunes: "unknown" falls through to the SMT query.

import "math"

type rng struct {
	sOK      bool
	slo, shi int64
	uOK      bool
	ulo, uhi uint64
}

func fullRng(w int) rng {
	r := rng{sOK: true, uOK: true}
	if w >= 64 {
		r.slo, r.shi = math.MinInt64, math.MaxInt64
		r.ulo, r.uhi = 0, math.MaxUint64
	} else {
		r.slo, r.shi = -(int64(1) << uint(w-1)), (int64(1)<<uint(w-1))-1
		r.ulo, r.uhi = 0, (uint64(1)<<uint(w))-1
	}
	return r
}

// complete derives the missing interpretation from the known one.
func (r rng) complete(w int) rng {
	f := fullRng(w)
	if !r.sOK && !r.uOK {
		return f
	}
	if r.sOK && !r.uOK {
		switch {
		case r.slo >= 0:
			r.ulo, r.uhi = uint64(r.slo), uint64(r.shi)
		case r.shi < 0:
			if w >= 64 {
				r.ulo, r.uhi = uint64(r.slo), uint64(r.shi)
			} else {
				r.ulo, r.uhi = uint64(r.slo+(int64(1)<<uint(w))), uint64(r.shi+(int64(1)<<uint(w)))
			}
		default:
			r.ulo, r.uhi = f.ulo, f.uhi
		}
		r.uOK = true
	}
	if r.uOK && !r.sOK {
		half := uint64(1) << uint(w-1)
		switch {
		case r.uhi < half:
			r.slo, r.shi = int64(r.ulo), int64(r.uhi)
		case r.ulo >= half:
			if w >= 64 {
				r.slo, r.shi = int64(r.ulo), int64(r.uhi)
			} else {
				r.slo, r.shi = int64(r.ulo)-(int64(1)<<uint(w)), int64(r.uhi)-(int64(1)<<uint(w))
			}
		default:
			r.slo, r.shi = f.slo, f.shi
		}
		r.sOK = true
	}
	// clamp
	if r.slo < f.slo {
		r.slo = f.slo
	}
	if r.shi > f.shi {
		r.shi = f.shi
	}
	if r.uhi > f.uhi {
		r.uhi = f.uhi
	}
	return r
}

// modRange maps the exact integer interval [lo,hi] into w-bit values (wrap-around aware).
func modRange(lo, hi int64, w int) rng {
	f := fullRng(w)
	var r rng
	if w >= 64 {
		return rng{sOK: true, slo: lo, shi: hi}
	}
	if lo >= f.slo && hi <= f.shi {
		r.sOK, r.slo, r.shi = true, lo, hi
	}
	m := int64(1) << uint(w)
	if hi-lo < m && hi-lo >= 0 {
		ul := ((lo % m) + m) % m
		uh := ((hi % m) + m) % m
		if ul <= uh {
			r.uOK, r.ulo, r.uhi = true, uint64(ul), uint64(uh)
		}
	}
	return r
}

func addOvf(a, b int64) (int64, bool) {
	c := a + b
	return c, (a > 0 && b > 0 && c < 0) || (a < 0 && b < 0 && c >= 0)
}

func (ex *Exec) rangeOf(t *Term) rng {
	if t.S.K != KBV {
		return rng{}
	}
	if r, ok := ex.rngCache[t.ID]; ok {
		return r
	}
	if _, ok := ex.decDigits[t.ID]; ok {
		return rng{uOK: true, ulo: '0', uhi: '9', sOK: true, slo: '0', shi: '9'}
	}
	w := t.S.W
	var r rng
	switch t.Op {
	case OConst:
		r = rng{sOK: true, slo: t.I(), shi: t.I(), uOK: true, ulo: t.C, uhi: t.C}
	case OVar:
		if vr, ok := ex.varRng[t.ID]; ok {
			r = vr
		} else {
			r = fullRng(w)
		}
	case OAdd, OSub:
		a, b := ex.rangeOf(t.A[0]), ex.rangeOf(t.A[1])
		// mathematical interval of the exact sum/difference, from either interpretation
		var lo, hi int64
		have := false
		if a.sOK && b.sOK {
			var o1, o2 bool
			if t.Op == OAdd {
				lo, o1 = addOvf(a.slo, b.slo)
				hi, o2 = addOvf(a.shi, b.shi)
			} else if b.shi != math.MinInt64 && b.slo != math.MinInt64 {
				lo, o1 = addOvf(a.slo, -b.shi)
				hi, o2 = addOvf(a.shi, -b.slo)
			} else {
				o1 = true
			}
			have = !o1 && !o2
		}
		if !have && a.uOK && b.uOK && a.uhi < 1<<62 && b.uhi < 1<<62 {
			if t.Op == OAdd {
				lo, hi = int64(a.ulo+b.ulo), int64(a.uhi+b.uhi)
			} else {
				lo, hi = int64(a.ulo)-int64(b.uhi), int64(a.uhi)-int64(b.ulo)
			}
			have = true
		}
		if have {
			r = modRange(lo, hi, w)
		}
	case ONeg:
		a := ex.rangeOf(t.A[0])
		f := fullRng(w)
		if a.sOK && a.slo > f.slo {
			r.sOK, r.slo, r.shi = true, -a.shi, -a.slo
		}
	case OMul:
		a, b := ex.rangeOf(t.A[0]), ex.rangeOf(t.A[1])
		if a.uOK && b.uOK && a.uhi < 1<<31 && b.uhi < 1<<31 {
			f := fullRng(w)
			if a.uhi*b.uhi <= f.uhi {
				r.uOK, r.ulo, r.uhi = true, a.ulo*b.ulo, a.uhi*b.uhi
			}
		}
		if a.sOK && b.sOK && a.slo > -(1<<31) && a.shi < 1<<31 && b.slo > -(1<<31) && b.shi < 1<<31 {
			// signed product of small factors: the exact interval, if it fits the width
			f := fullRng(w)
			p := [4]int64{a.slo * b.slo, a.slo * b.shi, a.shi * b.slo, a.shi * b.shi}
			lo, hi := p[0], p[0]
			for _, v := range p[1:] {
				if v < lo {
					lo = v
				}
				if v > hi {
					hi = v
				}
			}
			if lo >= f.slo && hi <= f.shi {
				r.sOK, r.slo, r.shi = true, lo, hi
			}
		}
	case OSExt:
		a := ex.rangeOf(t.A[0])
		if a.sOK {
			r.sOK, r.slo, r.shi = true, a.slo, a.shi
		}
	case OZExt:
		a := ex.rangeOf(t.A[0])
		if a.uOK {
			r.uOK, r.ulo, r.uhi = true, a.ulo, a.uhi
		}
	case OExtract:
		if t.Q == 0 {
			a := ex.rangeOf(t.A[0])
			f := fullRng(w)
			if a.uOK && a.uhi <= f.uhi {
				r.uOK, r.ulo, r.uhi = true, a.ulo, a.uhi
			} else if a.sOK && a.slo >= f.slo && a.shi <= f.shi {
				r.sOK, r.slo, r.shi = true, a.slo, a.shi
			}
		}
	case OIte:
		a, b := ex.rangeOf(t.A[1]), ex.rangeOf(t.A[2])
		if a.sOK && b.sOK {
			r.sOK = true
			r.slo, r.shi = a.slo, a.shi
			if b.slo < r.slo {
				r.slo = b.slo
			}
			if b.shi > r.shi {
				r.shi = b.shi
			}
		}
		if a.uOK && b.uOK {
			r.uOK = true
			r.ulo, r.uhi = a.ulo, a.uhi
			if b.ulo < r.ulo {
				r.ulo = b.ulo
			}
			if b.uhi > r.uhi {
				r.uhi = b.uhi
			}
		}
	case OBAnd:
		a, b := ex.rangeOf(t.A[0]), ex.rangeOf(t.A[1])
		if b.uOK && b.ulo == b.uhi {
			r.uOK, r.ulo, r.uhi = true, 0, b.uhi
			if a.uOK && a.uhi < r.uhi {
				r.uhi = a.uhi
			}
		}
	case OLShr:
		a, b := ex.rangeOf(t.A[0]), ex.rangeOf(t.A[1])
		if a.uOK && b.uOK && b.ulo == b.uhi && b.ulo < 64 {
			r.uOK, r.ulo, r.uhi = true, a.ulo>>b.ulo, a.uhi>>b.ulo
		}
	case OUDiv:
		a, b := ex.rangeOf(t.A[0]), ex.rangeOf(t.A[1])
		if a.uOK && b.uOK && b.ulo == b.uhi && b.ulo > 0 {
			r.uOK, r.ulo, r.uhi = true, a.ulo/b.ulo, a.uhi/b.ulo
		}
	case OURem:
		b := ex.rangeOf(t.A[1])
		if b.uOK && b.ulo == b.uhi && b.ulo > 0 {
			r.uOK, r.ulo, r.uhi = true, 0, b.ulo-1
		}
	}
	r = r.complete(w)
	ex.rngCache[t.ID] = r
	return r
}

// decide returns 1 (certainly true), 0 (certainly false) or -1 (unknown) for a boolean term.
func (ex *Exec) decide(t *Term) int {
	switch t.Op {
	case OConst:
		return int(t.C & 1)
	case ONot:
		v := ex.decide(t.A[0])
		if v < 0 {
			return -1
		}
		return 1 - v
	case OAnd:
		a, b := ex.decide(t.A[0]), ex.decide(t.A[1])
		if a == 0 || b == 0 {
			return 0
		}
		if a == 1 && b == 1 {
			return 1
		}
		return -1
	case OOr:
		a, b := ex.decide(t.A[0]), ex.decide(t.A[1])
		if a == 1 || b == 1 {
			return 1
		}
		if a == 0 && b == 0 {
			return 0
		}
		return -1
	case OSLt, OSLe:
		a, b := ex.rangeOf(t.A[0]), ex.rangeOf(t.A[1])
		if !a.sOK || !b.sOK {
			return -1
		}
		if t.Op == OSLt {
			if a.shi < b.slo {
				return 1
			}
			if a.slo >= b.shi {
				return 0
			}
		} else {
			if a.shi <= b.slo {
				return 1
			}
			if a.slo > b.shi {
				return 0
			}
		}
	case OULt, OULe:
		a, b := ex.rangeOf(t.A[0]), ex.rangeOf(t.A[1])
		if !a.uOK || !b.uOK {
			return -1
		}
		if t.Op == OULt {
			if a.uhi < b.ulo {
				return 1
			}
			if a.ulo >= b.uhi {
				return 0
			}
		} else {
			if a.uhi <= b.ulo {
				return 1
			}
			if a.ulo > b.uhi {
				return 0
			}
		}
	case OEq:
		if t.A[0].S.K != KBV {
			return -1
		}
		a, b := ex.rangeOf(t.A[0]), ex.rangeOf(t.A[1])
		if a.uOK && b.uOK {
			if a.uhi < b.ulo || b.uhi < a.ulo {
				return 0
			}
			if a.ulo == a.uhi && b.ulo == b.uhi && a.ulo == b.ulo {
				return 1
			}
		}
		if a.sOK && b.sOK && (a.shi < b.slo || b.shi < a.slo) {
			return 0
		}
	}
	return -1
}

// learn records variable bounds implied by an asserted constraint.
func (ex *Exec) learn(c *Term, positive bool) {
	switch c.Op {
	case ONot:
		ex.learn(c.A[0], !positive)
		return
	case OAnd:
		if positive {
			ex.learn(c.A[0], true)
			ex.learn(c.A[1], true)
		}
		return
	case OOr:
		if !positive {
			ex.learn(c.A[0], false)
			ex.learn(c.A[1], false)
		}
		return
	}
	if len(c.A) != 2 {
		return
	}
	a, b := c.A[0], c.A[1]
	// a variable, possibly widened: bounds on the widened value carry over when the constant lies in
	// the variable's own range (handled by intersecting with it)
	varOf := func(t *Term) *Term {
		if t.Op == OVar && t.S.K == KBV {
			return t
		}
		return nil
	}
	if (a.Op == OSExt || a.Op == OZExt) && a.A[0].Op == OVar && b.Op == OConst {
		inner := a.A[0]
		f := fullRng(inner.S.W)
		signedOp := c.Op == OSLt || c.Op == OSLe || c.Op == OEq
		if a.Op == OSExt && signedOp && b.I() >= f.slo && b.I() <= f.shi {
			ex.learn(&Term{Op: c.Op, S: SBool, A: []*Term{inner, ex.st.BVs(inner.S.W, b.I())}}, positive)
		}
		if a.Op == OZExt && !signedOp || a.Op == OZExt && c.Op == OEq {
			if b.C <= f.uhi {
				ex.learn(&Term{Op: c.Op, S: SBool, A: []*Term{inner, ex.st.BV(inner.S.W, b.C)}}, positive)
			}
		}
		return
	}
	if (b.Op == OSExt || b.Op == OZExt) && b.A[0].Op == OVar && a.Op == OConst {
		inner := b.A[0]
		f := fullRng(inner.S.W)
		signedOp := c.Op == OSLt || c.Op == OSLe || c.Op == OEq
		if b.Op == OSExt && signedOp && a.I() >= f.slo && a.I() <= f.shi {
			ex.learn(&Term{Op: c.Op, S: SBool, A: []*Term{ex.st.BVs(inner.S.W, a.I()), inner}}, positive)
		}
		if b.Op == OZExt && !signedOp {
			if a.C <= f.uhi {
				ex.learn(&Term{Op: c.Op, S: SBool, A: []*Term{ex.st.BV(inner.S.W, a.C), inner}}, positive)
			}
		}
		return
	}
	update := func(v *Term, f func(r *rng)) {
		r, ok := ex.varRng[v.ID]
		if !ok {
			r = fullRng(v.S.W)
		}
		f(&r)
		if r.sOK && r.slo > r.shi || r.uOK && r.ulo > r.uhi {
			return // contradictory: leave it to the solver
		}
		ex.varRng[v.ID] = r
		ex.rngCache = map[int]rng{}
	}
	// normalise to (op, var, const) with the variable on a known side
	op := c.Op
	if !positive {
		// not (a < b)  ==  b <= a ; not (a <= b) == b < a
		switch op {
		case OSLt:
			op, a, b = OSLe, b, a
		case OSLe:
			op, a, b = OSLt, b, a
		case OULt:
			op, a, b = OULe, b, a
		case OULe:
			op, a, b = OULt, b, a
		default:
			return
		}
	}
	switch op {
	case OEq:
		if v := varOf(a); v != nil && b.Op == OConst {
			update(v, func(r *rng) { *r = rng{sOK: true, slo: b.I(), shi: b.I(), uOK: true, ulo: b.C, uhi: b.C} })
		} else if v := varOf(b); v != nil && a.Op == OConst {
			update(v, func(r *rng) { *r = rng{sOK: true, slo: a.I(), shi: a.I(), uOK: true, ulo: a.C, uhi: a.C} })
		}
	case OSLt, OSLe:
		adj := int64(0)
		if op == OSLt {
			adj = 1
		}
		if v := varOf(a); v != nil && b.Op == OConst { // v < c
			if b.I() == math.MinInt64 && adj == 1 {
				return
			}
			update(v, func(r *rng) {
				if hi := b.I() - adj; hi < r.shi {
					r.shi = hi
				}
				r.uOK = false
				*r = r.complete(v.S.W)
			})
		} else if v := varOf(b); v != nil && a.Op == OConst { // c < v
			if a.I() == math.MaxInt64 && adj == 1 {
				return
			}
			update(v, func(r *rng) {
				if lo := a.I() + adj; lo > r.slo {
					r.slo = lo
				}
				r.uOK = false
				*r = r.complete(v.S.W)
			})
		}
	case OULt, OULe:
		adj := uint64(0)
		if op == OULt {
			adj = 1
		}
		if v := varOf(a); v != nil && b.Op == OConst {
			if b.C == 0 && adj == 1 {
				return
			}
			update(v, func(r *rng) {
				if hi := b.C - adj; hi < r.uhi {
					r.uhi = hi
				}
				r.sOK = false
				*r = r.complete(v.S.W)
			})
		} else if v := varOf(b); v != nil && a.Op == OConst {
			if a.C == math.MaxUint64 && adj == 1 {
				return
			}
			update(v, func(r *rng) {
				if lo := a.C + adj; lo > r.ulo {
					r.ulo = lo
				}
				r.sOK = false
				*r = r.complete(v.S.W)
			})
		}
	}
}

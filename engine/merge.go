package main

// If-conversion: predicated evaluation of both arms of a symbolic branch when they
// re-join (or both return) without needing any solver decision.  Stores performed inside
// the arms are guarded (ite(guard, new, old)); anything that would fork, query the solver,
// touch a map or end the path aborts the attempt and the branch is forked instead.

import (
	"go/types"

	"golang.org/x/tools/go/ssa"
)

type mergeAbort struct{}

type armRes struct {
	join   *ssa.BasicBlock
	vals   []Value
	npreds int
	ret    Value
	isRet  bool
}

const mergeStepBudget = 400

func abortMerge() { panic(mergeAbort{}) }

func numPhis(b *ssa.BasicBlock) int {
	n := 0
	for n < len(b.Instrs) {
		if _, ok := b.Instrs[n].(*ssa.Phi); !ok {
			break
		}
		n++
	}
	return n
}

func isLoopHead(b *ssa.BasicBlock) bool {
	for _, p := range b.Preds {
		if b.Dominates(p) {
			return true
		}
	}
	return false
}

func (ex *Exec) tryMerge(fr *Frame, block *ssa.BasicBlock, in *ssa.If, c *Term) (join *ssa.BasicBlock, ret Value, isRet bool, ok bool) {
	if ex.noMerge || isLoopHead(block) {
		return nil, nil, false, false
	}
	mark := len(ex.trail)
	savedGuard := ex.guard
	savedFrame := ex.frame
	savedDepth := ex.depth
	savedBudget := ex.specBudget
	savedMarkID := ex.specMarkID
	if ex.spec == 0 {
		ex.specBudget = mergeStepBudget
		ex.specMarkID = ex.nextID
	}
	ex.spec++
	defer func() {
		ex.spec--
		ex.guard = savedGuard
		if ex.spec == 0 {
			ex.specBudget = savedBudget
			ex.specMarkID = savedMarkID
		}
		if r := recover(); r != nil {
			_, isAbort := r.(mergeAbort)
			_, isEnd := r.(PathEnd)
			if !isAbort && !isEnd {
				panic(r)
			}
			// roll back
			for i := len(ex.trail) - 1; i >= mark; i-- {
				u := ex.trail[i]
				if u.isM {
					if u.oldE == nil {
						delete(u.m.m, u.key)
					} else {
						u.m.m[u.key] = u.oldE
					}
				} else {
					u.loc.v = u.oldV
				}
			}
			ex.trail = ex.trail[:mark]
			ex.frame = savedFrame
			ex.depth = savedDepth
			fr.block = block
			join, ret, isRet, ok = nil, nil, false, false
		}
	}()
	gT, gF := c, ex.st.Not(c)
	if savedGuard != nil {
		gT = ex.st.And(savedGuard, c)
		gF = ex.st.And(savedGuard, gF)
	}
	rT := ex.evalArm(fr, block.Succs[0], block, gT)
	rF := ex.evalArm(fr, block.Succs[1], block, gF)
	ex.guard = savedGuard
	m := ex.combine(c, rT, rF)
	if m.isRet {
		return nil, m.ret, true, true
	}
	np := numPhis(m.join)
	for k := 0; k < np; k++ {
		fr.env[m.join.Instrs[k].(*ssa.Phi)] = m.vals[k]
	}
	fr.block = block
	return m.join, nil, false, true
}

func (ex *Exec) combine(c *Term, a, b armRes) armRes {
	if a.isRet != b.isRet {
		abortMerge()
	}
	if a.isRet {
		return armRes{isRet: true, ret: ex.mergeValue(c, a.ret, b.ret)}
	}
	if a.join != b.join {
		abortMerge()
	}
	vals := make([]Value, len(a.vals))
	for i := range vals {
		vals[i] = ex.mergeValue(c, a.vals[i], b.vals[i])
	}
	return armRes{join: a.join, vals: vals, npreds: a.npreds + b.npreds}
}

func (ex *Exec) mergeValue(c *Term, a, b Value) Value {
	switch x := a.(type) {
	case nil:
		if b == nil {
			return nil
		}
	case *Term:
		if y, ok := b.(*Term); ok && x.S == y.S {
			return ex.st.Ite(c, x, y)
		}
	case *Loc:
		if y, ok := b.(*Loc); ok && x == y {
			return x
		}
	case *MapObj:
		if y, ok := b.(*MapObj); ok && x == y {
			return x
		}
	case *FuncV:
		if y, ok := b.(*FuncV); ok && x == y {
			return x
		}
	case *LazyV:
		if y, ok := b.(*LazyV); ok && x == y {
			return x
		}
	case SliceV:
		if y, ok := b.(SliceV); ok && x == y {
			return x
		}
	case StringV:
		if y, ok := b.(StringV); ok && x.Len() == y.Len() {
			if x.sym == nil && y.sym == nil {
				if x.s == y.s {
					return x
				}
			}
			xb, yb := ex.strBytes(x), ex.strBytes(y)
			bs := make([]*Term, len(xb))
			for i := range bs {
				bs[i] = ex.st.Ite(c, xb[i], yb[i])
			}
			return ex.mkString(bs)
		}
	case IfaceV:
		if y, ok := b.(IfaceV); ok {
			if x.t == nil && y.t == nil {
				return x
			}
			if x.t != nil && y.t != nil && types.Identical(x.t, y.t) {
				return IfaceV{t: x.t, v: ex.mergeValue(c, x.v, y.v)}
			}
		}
	case TupleV:
		if y, ok := b.(TupleV); ok && len(x) == len(y) {
			r := make(TupleV, len(x))
			for i := range x {
				r[i] = ex.mergeValue(c, x[i], y[i])
			}
			return r
		}
	case StructV:
		if y, ok := b.(StructV); ok && len(x.f) == len(y.f) {
			r := make([]Value, len(x.f))
			for i := range x.f {
				r[i] = ex.mergeValue(c, x.f[i], y.f[i])
			}
			return StructV{r}
		}
	case ArrayV:
		if y, ok := b.(ArrayV); ok && len(x.e) == len(y.e) {
			r := make([]Value, len(x.e))
			for i := range x.e {
				r[i] = ex.mergeValue(c, x.e[i], y.e[i])
			}
			return ArrayV{r}
		}
	}
	abortMerge()
	return nil
}

// evalArm executes the chain of blocks starting at b (entered from pred) under guard g.
func (ex *Exec) evalArm(fr *Frame, b, pred *ssa.BasicBlock, g *Term) armRes {
	cur, from := b, pred
	skipPhis := false
	for {
		np := numPhis(cur)
		if len(cur.Preds) > 1 && !skipPhis {
			// a join: report the phi values along this edge
			pi := predIndex(cur, from)
			vals := make([]Value, np)
			for k := 0; k < np; k++ {
				vals[k] = ex.get(fr, cur.Instrs[k].(*ssa.Phi).Edges[pi])
			}
			return armRes{join: cur, vals: vals, npreds: 1}
		}
		if !skipPhis && np > 0 {
			vals := make([]Value, np)
			for k := 0; k < np; k++ {
				vals[k] = ex.get(fr, cur.Instrs[k].(*ssa.Phi).Edges[0])
			}
			for k := 0; k < np; k++ {
				fr.env[cur.Instrs[k].(*ssa.Phi)] = vals[k]
			}
		}
		skipPhis = false
		if isLoopHead(cur) {
			abortMerge()
		}
		ex.guard = g
		fr.block = cur
		var next *ssa.BasicBlock
		for i := np; i < len(cur.Instrs); i++ {
			ex.specBudget--
			if ex.specBudget < 0 {
				abortMerge()
			}
			switch in := cur.Instrs[i].(type) {
			case *ssa.If:
				c2 := ex.term(fr, in.Cond)
				if c2.Op == OConst {
					if c2.C != 0 {
						next = cur.Succs[0]
					} else {
						next = cur.Succs[1]
					}
					break
				}
				rA := ex.evalArm(fr, cur.Succs[0], cur, ex.st.And(g, c2))
				rB := ex.evalArm(fr, cur.Succs[1], cur, ex.st.And(g, ex.st.Not(c2)))
				ex.guard = g
				m := ex.combine(c2, rA, rB)
				if m.isRet {
					return m
				}
				if m.npreds < len(m.join.Preds) {
					return m
				}
				// fully covered join: continue inside it
				n2 := numPhis(m.join)
				for k := 0; k < n2; k++ {
					fr.env[m.join.Instrs[k].(*ssa.Phi)] = m.vals[k]
				}
				next = m.join
				skipPhis = true
			case *ssa.Jump:
				next = cur.Succs[0]
			case *ssa.Return:
				switch len(in.Results) {
				case 0:
					return armRes{isRet: true}
				case 1:
					return armRes{isRet: true, ret: ex.get(fr, in.Results[0])}
				}
				tv := make(TupleV, len(in.Results))
				for k, r := range in.Results {
					tv[k] = ex.get(fr, r)
				}
				return armRes{isRet: true, ret: tv}
			case *ssa.Panic, *ssa.RunDefers, *ssa.Defer, *ssa.Go, *ssa.MapUpdate, *ssa.Range, *ssa.Next, *ssa.Select, *ssa.Send:
				abortMerge()
			default:
				ex.exec(fr, cur.Instrs[i])
			}
			if next != nil {
				break
			}
		}
		if next == nil {
			abortMerge()
		}
		from = cur
		cur = next
	}
}

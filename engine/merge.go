package main

// If-conversion: predicated evaluation of the acyclic region between a symbolic branch and
// its immediate post-dominator (or the function exit when every path returns).  Blocks are
// executed in topological order under their path guard; stores are guarded
// (ite(guard, new, old)); phis become ite chains over the incoming edge guards.  Anything
// that would fork, query the solver, touch an older map or end the path aborts the attempt
// and the branch is forked instead.

import (
	"go/types"
	"sync"

	"golang.org/x/tools/go/ssa"
)

type mergeAbort struct{}

const mergeStepBudget = 600
const maxRegionBlocks = 24

func abortMerge() { panic(mergeAbort{}) }

func numPhis(b *ssa.BasicBlock) int {
	n := 0
	for n < len(b.Instrs) {
		if _, ok := b.Instrs[n].(*ssa.Phi); !ok {
			break
		}
		n++
	}
	return n
}

func isLoopHead(b *ssa.BasicBlock) bool {
	for _, p := range b.Preds {
		if b.Dominates(p) {
			return true
		}
	}
	return false
}

type regionInfo struct {
	ok    bool
	join  *ssa.BasicBlock // nil: all paths return
	order []*ssa.BasicBlock
}

var regionCache sync.Map // *ssa.If -> *regionInfo
var ipdomCache sync.Map  // *ssa.Function -> []int (index of immediate post-dominator, -1 = exit)

// ipdoms computes immediate post-dominators of all blocks of fn (virtual exit = -1).
func ipdoms(fn *ssa.Function) []int {
	if v, ok := ipdomCache.Load(fn); ok {
		return v.([]int)
	}
	n := len(fn.Blocks)
	words := (n + 1 + 63) / 64
	exit := n
	full := make([]uint64, words)
	for i := 0; i <= n; i++ {
		full[i/64] |= 1 << uint(i%64)
	}
	pd := make([][]uint64, n+1)
	for i := 0; i <= n; i++ {
		pd[i] = append([]uint64{}, full...)
	}
	pd[exit] = make([]uint64, words)
	pd[exit][exit/64] |= 1 << uint(exit%64)
	changed := true
	for changed {
		changed = false
		for i := n - 1; i >= 0; i-- {
			b := fn.Blocks[i]
			acc := append([]uint64{}, full...)
			if len(b.Succs) == 0 {
				for w := range acc {
					acc[w] &= pd[exit][w]
				}
			}
			for _, s := range b.Succs {
				for w := range acc {
					acc[w] &= pd[s.Index][w]
				}
			}
			acc[i/64] |= 1 << uint(i%64)
			for w := range acc {
				if acc[w] != pd[i][w] {
					changed = true
				}
			}
			pd[i] = acc
		}
	}
	count := func(s []uint64) int {
		c := 0
		for _, w := range s {
			for ; w != 0; w &= w - 1 {
				c++
			}
		}
		return c
	}
	res := make([]int, n)
	for i := 0; i < n; i++ {
		res[i] = -2
		ci := count(pd[i])
		for j := 0; j <= n; j++ {
			if j == i || pd[i][j/64]&(1<<uint(j%64)) == 0 {
				continue
			}
			if count(pd[j]) == ci-1 {
				if j == exit {
					res[i] = -1
				} else {
					res[i] = j
				}
				break
			}
		}
	}
	ipdomCache.Store(fn, res)
	return res
}

func regionFor(in *ssa.If) *regionInfo {
	if v, ok := regionCache.Load(in); ok {
		return v.(*regionInfo)
	}
	b := in.Block()
	fn := b.Parent()
	ri := &regionInfo{}
	defer regionCache.Store(in, ri)
	if isLoopHead(b) {
		return ri
	}
	ip := ipdoms(fn)[b.Index]
	if ip == -2 {
		return ri
	}
	var join *ssa.BasicBlock
	if ip >= 0 {
		join = fn.Blocks[ip]
	}
	// collect region blocks in reverse post-order
	seen := map[*ssa.BasicBlock]bool{}
	onStack := map[*ssa.BasicBlock]bool{}
	var post []*ssa.BasicBlock
	bad := false
	var dfs func(x *ssa.BasicBlock)
	dfs = func(x *ssa.BasicBlock) {
		if bad || x == join || seen[x] {
			if onStack[x] {
				bad = true
			}
			return
		}
		if x == b || isLoopHead(x) || len(seen) >= maxRegionBlocks {
			bad = true
			return
		}
		seen[x] = true
		onStack[x] = true
		for _, s := range x.Succs {
			dfs(s)
		}
		onStack[x] = false
		post = append(post, x)
	}
	for _, s := range b.Succs {
		dfs(s)
	}
	if bad {
		return ri
	}
	for i := len(post) - 1; i >= 0; i-- {
		ri.order = append(ri.order, post[i])
	}
	ri.join = join
	ri.ok = true
	return ri
}

type edgeIn struct {
	pred  *ssa.BasicBlock
	guard *Term
}

func (ex *Exec) tryMerge(fr *Frame, block *ssa.BasicBlock, in *ssa.If, c *Term) (join *ssa.BasicBlock, ret Value, isRet bool, ok bool) {
	if ex.noMerge {
		return nil, nil, false, false
	}
	ri := regionFor(in)
	if !ri.ok {
		return nil, nil, false, false
	}
	mark := len(ex.trail)
	savedGuard := ex.guard
	savedFrame := ex.frame
	savedDepth := ex.depth
	savedBudget := ex.specBudget
	savedMarkID := ex.specMarkID
	if ex.spec == 0 {
		ex.specBudget = mergeStepBudget
		ex.specMarkID = ex.nextID
	}
	ex.spec++
	defer func() {
		ex.spec--
		ex.guard = savedGuard
		if ex.spec == 0 {
			ex.specBudget = savedBudget
			ex.specMarkID = savedMarkID
		}
		if r := recover(); r != nil {
			_, isAbort := r.(mergeAbort)
			_, isEnd := r.(PathEnd)
			if !isAbort && !isEnd {
				panic(r)
			}
			for i := len(ex.trail) - 1; i >= mark; i-- {
				u := ex.trail[i]
				if u.isM {
					if u.oldE == nil {
						delete(u.m.m, u.key)
					} else {
						u.m.m[u.key] = u.oldE
					}
				} else {
					u.loc.v = u.oldV
				}
			}
			ex.trail = ex.trail[:mark]
			ex.frame = savedFrame
			ex.depth = savedDepth
			fr.block = block
			join, ret, isRet, ok = nil, nil, false, false
		}
	}()
	st := ex.st
	incoming := map[*ssa.BasicBlock][]edgeIn{}
	addEdge := func(from, to *ssa.BasicBlock, g *Term) {
		if g.Op == OConst && g.C == 0 {
			return
		}
		incoming[to] = append(incoming[to], edgeIn{from, g})
	}
	addEdge(block, block.Succs[0], c)
	addEdge(block, block.Succs[1], st.Not(c))
	type retCase struct {
		g *Term
		v Value
	}
	var rets []retCase

	// phiValues computes the phi values of x from the region edges
	phiValues := func(x *ssa.BasicBlock, ins []edgeIn) []Value {
		np := numPhis(x)
		vals := make([]Value, np)
		for k := 0; k < np; k++ {
			phi := x.Instrs[k].(*ssa.Phi)
			var acc Value
			for i := len(ins) - 1; i >= 0; i-- {
				v := ex.get(fr, phi.Edges[predIndex(x, ins[i].pred)])
				if acc == nil {
					acc = v
				} else {
					acc = ex.mergeValue(ins[i].guard, v, acc)
				}
			}
			vals[k] = acc
		}
		return vals
	}

	for _, x := range ri.order {
		ins := incoming[x]
		if len(ins) == 0 {
			continue
		}
		g := ins[0].guard
		for _, e := range ins[1:] {
			g = st.Or(g, e.guard)
		}
		vals := phiValues(x, ins)
		np := len(vals)
		for k := 0; k < np; k++ {
			fr.env[x.Instrs[k].(*ssa.Phi)] = vals[k]
		}
		if savedGuard != nil {
			ex.guard = st.And(savedGuard, g)
		} else {
			ex.guard = g
		}
		fr.block = x
		for i := np; i < len(x.Instrs); i++ {
			ex.specBudget--
			if ex.specBudget < 0 {
				abortMerge()
			}
			switch t := x.Instrs[i].(type) {
			case *ssa.If:
				c2 := ex.term(fr, t.Cond)
				addEdge(x, x.Succs[0], st.And(g, c2))
				addEdge(x, x.Succs[1], st.And(g, st.Not(c2)))
			case *ssa.Jump:
				addEdge(x, x.Succs[0], g)
			case *ssa.Return:
				var v Value
				switch len(t.Results) {
				case 0:
				case 1:
					v = ex.get(fr, t.Results[0])
				default:
					tv := make(TupleV, len(t.Results))
					for k, r := range t.Results {
						tv[k] = ex.get(fr, r)
					}
					v = tv
				}
				rets = append(rets, retCase{g, v})
			case *ssa.Panic, *ssa.RunDefers, *ssa.Defer, *ssa.Go, *ssa.MapUpdate, *ssa.Range, *ssa.Next, *ssa.Select, *ssa.Send:
				abortMerge()
			default:
				ex.exec(fr, x.Instrs[i])
			}
		}
	}
	ex.guard = savedGuard
	if ri.join == nil {
		if len(rets) == 0 {
			abortMerge()
		}
		acc := rets[len(rets)-1].v
		for i := len(rets) - 2; i >= 0; i-- {
			acc = ex.mergeValue(rets[i].g, rets[i].v, acc)
		}
		fr.block = block
		return nil, acc, true, true
	}
	if len(rets) > 0 {
		abortMerge()
	}
	ins := incoming[ri.join]
	if len(ins) == 0 {
		abortMerge()
	}
	vals := phiValues(ri.join, ins)
	for k := range vals {
		fr.env[ri.join.Instrs[k].(*ssa.Phi)] = vals[k]
	}
	fr.block = block
	return ri.join, nil, false, true
}

func (ex *Exec) mergeValue(c *Term, a, b Value) Value {
	switch x := a.(type) {
	case nil:
		if b == nil {
			return nil
		}
	case *Term:
		if y, ok := b.(*Term); ok && x.S == y.S {
			return ex.st.Ite(c, x, y)
		}
	case *Loc:
		if y, ok := b.(*Loc); ok && x == y {
			return x
		}
	case *MapObj:
		if y, ok := b.(*MapObj); ok && x == y {
			return x
		}
	case *FuncV:
		if y, ok := b.(*FuncV); ok && x == y {
			return x
		}
	case *LazyV:
		if y, ok := b.(*LazyV); ok && x == y {
			return x
		}
	case SliceV:
		if y, ok := b.(SliceV); ok && x == y {
			return x
		}
	case StringV:
		if y, ok := b.(StringV); ok && x.Len() == y.Len() {
			if x.sym == nil && y.sym == nil {
				if x.s == y.s {
					return x
				}
			}
			xb, yb := ex.strBytes(x), ex.strBytes(y)
			bs := make([]*Term, len(xb))
			for i := range bs {
				bs[i] = ex.st.Ite(c, xb[i], yb[i])
			}
			return ex.mkString(bs)
		}
	case IfaceV:
		if y, ok := b.(IfaceV); ok {
			if x.t == nil && y.t == nil {
				return x
			}
			if x.t != nil && y.t != nil && types.Identical(x.t, y.t) {
				return IfaceV{t: x.t, v: ex.mergeValue(c, x.v, y.v)}
			}
		}
	case TupleV:
		if y, ok := b.(TupleV); ok && len(x) == len(y) {
			r := make(TupleV, len(x))
			for i := range x {
				r[i] = ex.mergeValue(c, x[i], y[i])
			}
			return r
		}
	case StructV:
		if y, ok := b.(StructV); ok && len(x.f) == len(y.f) {
			r := make([]Value, len(x.f))
			for i := range x.f {
				r[i] = ex.mergeValue(c, x.f[i], y.f[i])
			}
			return StructV{r}
		}
	case ArrayV:
		if y, ok := b.(ArrayV); ok && len(x.e) == len(y.e) {
			r := make([]Value, len(x.e))
			for i := range x.e {
				r[i] = ex.mergeValue(c, x.e[i], y.e[i])
			}
			return ArrayV{r}
		}
	}
	abortMerge()
	return nil
}

// ---------------------------------------------------------------------------
// Condition merging: a short-circuit condition (a && b || c ...) is compiled into a tree of
// blocks that only evaluate sub-conditions and branch.  When that tree has exactly two exit
// blocks, the guards of the two exits are computed and a single decision is taken, instead
// of one fork per sub-condition.

type condRegion struct {
	ok    bool
	inner []*ssa.BasicBlock // topological order
	exits []*ssa.BasicBlock
}

var condCache sync.Map // *ssa.If -> *condRegion

func condRegionFor(in *ssa.If) *condRegion {
	if v, ok := condCache.Load(in); ok {
		return v.(*condRegion)
	}
	cr := &condRegion{}
	defer condCache.Store(in, cr)
	b := in.Block()
	pure := func(x *ssa.BasicBlock) bool {
		if len(x.Instrs) == 0 || len(x.Instrs) > 12 || isLoopHead(x) {
			return false
		}
		if _, ok := x.Instrs[len(x.Instrs)-1].(*ssa.If); !ok {
			return false
		}
		for _, ins := range x.Instrs[:len(x.Instrs)-1] {
			switch ins.(type) {
			case *ssa.BinOp, *ssa.UnOp, *ssa.Convert, *ssa.ChangeType, *ssa.Extract, *ssa.Field, *ssa.FieldAddr, *ssa.IndexAddr, *ssa.Index, *ssa.Lookup, *ssa.DebugRef:
			default:
				return false // includes phis
			}
		}
		return true
	}
	// candidate inner blocks: reachable from b through pure condition blocks
	cand := map[*ssa.BasicBlock]bool{}
	var collect func(x *ssa.BasicBlock)
	collect = func(x *ssa.BasicBlock) {
		if x == b || cand[x] || !pure(x) || len(cand) >= 16 {
			return
		}
		cand[x] = true
		for _, s := range x.Succs {
			collect(s)
		}
	}
	for _, s := range b.Succs {
		collect(s)
	}
	// an inner block must be entered only from the region
	for changed := true; changed; {
		changed = false
		for x := range cand {
			for _, p := range x.Preds {
				if p != b && !cand[p] {
					delete(cand, x)
					changed = true
					break
				}
			}
		}
	}
	if len(cand) == 0 {
		return cr
	}
	// topological order (the region is acyclic: no loop heads) and exits
	seen := map[*ssa.BasicBlock]bool{}
	exitSeen := map[*ssa.BasicBlock]bool{}
	var post []*ssa.BasicBlock
	var dfs func(x *ssa.BasicBlock)
	dfs = func(x *ssa.BasicBlock) {
		if !cand[x] {
			if !exitSeen[x] {
				exitSeen[x] = true
				cr.exits = append(cr.exits, x)
			}
			return
		}
		if seen[x] {
			return
		}
		seen[x] = true
		for _, s := range x.Succs {
			dfs(s)
		}
		post = append(post, x)
	}
	for _, s := range b.Succs {
		dfs(s)
	}
	if len(cr.exits) != 2 || len(post) == 0 {
		return cr
	}
	for i := len(post) - 1; i >= 0; i-- {
		cr.inner = append(cr.inner, post[i])
	}
	cr.ok = true
	return cr
}

func (ex *Exec) tryCondMerge(fr *Frame, block *ssa.BasicBlock, in *ssa.If, c *Term) (*ssa.BasicBlock, bool) {
	if ex.noMerge || ex.spec > 0 {
		return nil, false
	}
	cr := condRegionFor(in)
	if !cr.ok {
		return nil, false
	}
	st := ex.st
	incoming := map[*ssa.BasicBlock][]edgeIn{}
	addEdge := func(from, to *ssa.BasicBlock, g *Term) {
		if g.Op == OConst && g.C == 0 {
			return
		}
		incoming[to] = append(incoming[to], edgeIn{from, g})
	}
	okRun := func() (ok bool) {
		mark := len(ex.trail)
		savedFrame, savedDepth := ex.frame, ex.depth
		ex.spec++
		ex.specBudget = mergeStepBudget
		ex.specMarkID = ex.nextID
		defer func() {
			ex.spec--
			if r := recover(); r != nil {
				_, isAbort := r.(mergeAbort)
				_, isEnd := r.(PathEnd)
				if !isAbort && !isEnd {
					panic(r)
				}
				ex.frame, ex.depth = savedFrame, savedDepth
				ok = false
			}
			if len(ex.trail) != mark {
				// conditions must be side-effect free
				for i := len(ex.trail) - 1; i >= mark; i-- {
					u := ex.trail[i]
					if u.isM {
						if u.oldE == nil {
							delete(u.m.m, u.key)
						} else {
							u.m.m[u.key] = u.oldE
						}
					} else {
						u.loc.v = u.oldV
					}
				}
				ex.trail = ex.trail[:mark]
				ok = false
			}
			fr.block = block
		}()
		addEdge(block, block.Succs[0], c)
		addEdge(block, block.Succs[1], st.Not(c))
		for _, x := range cr.inner {
			ins := incoming[x]
			if len(ins) == 0 {
				continue
			}
			g := ins[0].guard
			for _, e := range ins[1:] {
				g = st.Or(g, e.guard)
			}
			fr.block = x
			for i := 0; i < len(x.Instrs)-1; i++ {
				ex.exec(fr, x.Instrs[i])
			}
			c2 := ex.term(fr, x.Instrs[len(x.Instrs)-1].(*ssa.If).Cond)
			addEdge(x, x.Succs[0], st.And(g, c2))
			addEdge(x, x.Succs[1], st.And(g, st.Not(c2)))
		}
		return true
	}()
	if !okRun {
		return nil, false
	}
	X, Y := cr.exits[0], cr.exits[1]
	gOf := func(b *ssa.BasicBlock) *Term {
		g := st.False
		for _, e := range incoming[b] {
			g = st.Or(g, e.guard)
		}
		return g
	}
	gX := gOf(X)
	var target *ssa.BasicBlock
	if ex.branch(gX) {
		target = X
	} else {
		target = Y
	}
	ins := incoming[target]
	if len(ins) == 0 {
		ex.end("infeasible", "condition merge: unreachable exit")
	}
	np := numPhis(target)
	vals := make([]Value, np)
	for k := 0; k < np; k++ {
		phi := target.Instrs[k].(*ssa.Phi)
		var acc Value
		for i := len(ins) - 1; i >= 0; i-- {
			v := ex.get(fr, phi.Edges[predIndex(target, ins[i].pred)])
			if acc == nil {
				acc = v
			} else {
				func() {
					defer func() {
						if r := recover(); r != nil {
							if _, isAbort := r.(mergeAbort); isAbort {
								ex.unsupported("condition merge: phi values of different shape")
							}
							panic(r)
						}
					}()
					acc = ex.mergeValue(ins[i].guard, v, acc)
				}()
			}
		}
		vals[k] = acc
	}
	for k := 0; k < np; k++ {
		fr.env[target.Instrs[k].(*ssa.Phi)] = vals[k]
	}
	return target, true
}

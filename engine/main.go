package main

import (
	"crypto/sha1"
	"encoding/json"
	"flag"
	"fmt"
	"go/types"
	"os"
	"os/exec"
	"path/filepath"
	"runtime/pprof"
	"sort"
	"strconv"
	"strings"
	"sync"
	"time"

	"golang.org/x/tools/go/packages"
	"golang.org/x/tools/go/ssa"
	"golang.org/x/tools/go/ssa/ssautil"
)

const repoDir = "/repo"

var verifDir = "/verif"

// harness directory name -> (repo relative dir, import path suffix)
var harnessDirs = map[string]string{
	"postscript": ".",
	"pfb":        "pfb",
	"type1":      "type1",
	"names":      "type1/names",
	"afm":        "afm",
	"psenc":      "psenc",
	"funit":      "funit",
}

type HarnessCfg struct {
	Func             string                    `json:"func"`
	Dir              string                    `json:"dir"` // harness directory name
	Tiers            []string                  `json:"tiers,omitempty"`
	Solver           string                    `json:"solver,omitempty"`
	TimeoutMs        int                       `json:"timeout_ms,omitempty"`
	Params           map[string]map[string]int `json:"params,omitempty"` // tier -> name -> value
	PanicsOK         bool                      `json:"panics_ok,omitempty"`
	DepthIsViolation bool                      `json:"depth_is_violation,omitempty"`
	HangIsViolation  bool                      `json:"hang_is_violation,omitempty"`
	MaxPaths         map[string]int            `json:"max_paths,omitempty"`
	BudgetS          map[string]int            `json:"budget_s,omitempty"`
	Kernel           string                    `json:"kernel,omitempty"`
	What             string                    `json:"what,omitempty"`
	Bounds           string                    `json:"bounds,omitempty"`
	Covers           []string                  `json:"covers,omitempty"`
}

type PropCfg struct {
	Level       string       `json:"level"`
	Harnesses   []HarnessCfg `json:"harnesses"`
	Assumptions []string     `json:"assumptions,omitempty"`
}

type harnessResult struct {
	cfg        HarnessCfg
	stats      Stats
	queries    struct{ Sat, Unsat, Unknown, Errors int }
	solverTime time.Duration
	wall       time.Duration
	funcs      map[string]int
	notes      map[string]int
	violations []*Violation
	covers     map[string]*coverWitness
	asserts    []string
	samples    []string
	engineErrs []string
	decided    int
	timedOut   bool
	maxDepth   int
	params     map[string]int
}

var budgetOverride int

var pinned *replayVec

var params map[string]int // current harness parameters (read-only during exploration)

func main() {
	if d := os.Getenv("VP_VERIFDIR"); d != "" {
		verifDir = d
	}
	if len(os.Args) < 2 {
		fmt.Fprintln(os.Stderr, "usage: gosym check -prop ID -tier quick|thorough | gosym replay -prop ID -file F")
		os.Exit(2)
	}
	switch os.Args[1] {
	case "check":
		os.Exit(cmdCheck(os.Args[2:]))
	case "replay":
		os.Exit(cmdReplay(os.Args[2:]))
	}
	fmt.Fprintln(os.Stderr, "unknown command")
	os.Exit(2)
}

func loadChecks() map[string]PropCfg {
	raw, err := os.ReadFile(filepath.Join(verifDir, "harness", "checks.json"))
	if err != nil {
		fmt.Fprintln(os.Stderr, err)
		os.Exit(2)
	}
	var m map[string]PropCfg
	if err := json.Unmarshal(raw, &m); err != nil {
		fmt.Fprintln(os.Stderr, "checks.json:", err)
		os.Exit(2)
	}
	return m
}

func loadKnown() []KnownFinding {
	raw, err := os.ReadFile(filepath.Join(verifDir, "known_findings.json"))
	if err != nil {
		return nil
	}
	var f struct {
		Findings []KnownFinding `json:"findings"`
	}
	if err := json.Unmarshal(raw, &f); err != nil {
		fmt.Fprintln(os.Stderr, "known_findings.json:", err)
		os.Exit(2)
	}
	return f.Findings
}

func goEnv() []string {
	env := os.Environ()
	env = append(env, "GOFLAGS=-mod=mod", "GOPROXY=off", "GOSUMDB=off", "GOTOOLCHAIN=local", "CGO_ENABLED=0")
	return env
}

// buildOverlay maps harness files (and the prelude) into the repo's package directories.
func buildOverlay(dirs []string, withTest bool, funcsByDir map[string][]string, tmp string) (map[string][]byte, error) {
	ov := map[string][]byte{}
	prelude, err := os.ReadFile(filepath.Join(verifDir, "harness", "prelude.go.txt"))
	if err != nil {
		return nil, err
	}
	for _, d := range dirs {
		rel, ok := harnessDirs[d]
		if !ok {
			return nil, fmt.Errorf("unknown harness dir %s", d)
		}
		pkgName, err := packageName(filepath.Join(repoDir, rel))
		if err != nil {
			return nil, err
		}
		ov[filepath.Join(repoDir, rel, "zz_vp_prelude.go")] = []byte(strings.Replace(string(prelude), "package PKG", "package "+pkgName, 1))
		files, _ := filepath.Glob(filepath.Join(verifDir, "harness", d, "*.go"))
		for _, f := range files {
			src, err := os.ReadFile(f)
			if err != nil {
				return nil, err
			}
			ov[filepath.Join(repoDir, rel, "zz_vp_"+filepath.Base(f))] = src
		}
		if withTest {
			var sb strings.Builder
			fmt.Fprintf(&sb, "package %s\n\nimport (\n\t\"fmt\"\n\t\"os\"\n\t\"testing\"\n)\n\n", pkgName)
			sb.WriteString("func TestVPReplay(t *testing.T) {\n\tvpLoadReplay()\n\tall := map[string]func(){\n")
			for _, fn := range funcsByDir[d] {
				fmt.Fprintf(&sb, "\t\t%q: %s,\n", fn, fn)
			}
			sb.WriteString("\t}\n\tf, ok := all[os.Getenv(\"VP_HARNESS\")]\n\tif !ok {\n\t\tt.Fatal(\"unknown harness\")\n\t}\n")
			sb.WriteString("\tdefer func() {\n\t\tif r := recover(); r != nil {\n\t\t\tfmt.Printf(\"\\nVP-PANIC %v\\n\", r)\n\t\t}\n\t\tfmt.Println(\"VP-END\")\n\t}()\n\tf()\n\tfmt.Println(\"VP-DONE\")\n}\n")
			ov[filepath.Join(repoDir, rel, "zz_vp_replay_test.go")] = []byte(sb.String())
		}
	}
	return ov, nil
}

func packageName(dir string) (string, error) {
	files, _ := filepath.Glob(filepath.Join(dir, "*.go"))
	for _, f := range files {
		if strings.HasSuffix(f, "_test.go") {
			continue
		}
		src, err := os.ReadFile(f)
		if err != nil {
			continue
		}
		for _, line := range strings.Split(string(src), "\n") {
			if strings.HasPrefix(line, "package ") {
				return strings.Fields(line)[1], nil
			}
		}
	}
	return "", fmt.Errorf("no package clause found in %s", dir)
}

type loaded struct {
	prog     *ssa.Program
	pkgs     []*packages.Package
	ssaPkgs  map[string]*ssa.Package // by harness dir
	modOrder []*ssa.Package
	modPkgs  map[*ssa.Package]bool
	loadTime time.Duration
}

func loadProgram(dirs []string) (*loaded, error) {
	t0 := time.Now()
	ov, err := buildOverlay(dirs, false, nil, "")
	if err != nil {
		return nil, err
	}
	cfg := &packages.Config{Mode: packages.LoadAllSyntax, Dir: repoDir, Overlay: ov, Env: goEnv()}
	pats := []string{".", "./pfb", "./type1", "./type1/names", "./afm", "./psenc", "./funit", "./cid"}
	pkgs, err := packages.Load(cfg, pats...)
	if err != nil {
		return nil, err
	}
	nerr := 0
	packages.Visit(pkgs, nil, func(p *packages.Package) {
		for _, e := range p.Errors {
			fmt.Fprintln(os.Stderr, "HARNESS-LOAD-ERROR", e)
			nerr++
		}
	})
	if nerr > 0 {
		return nil, fmt.Errorf("%d load errors", nerr)
	}
	prog, _ := ssautil.AllPackages(pkgs, ssa.InstantiateGenerics)
	prog.Build()
	ld := &loaded{prog: prog, pkgs: pkgs, ssaPkgs: map[string]*ssa.Package{}, modPkgs: map[*ssa.Package]bool{}}
	// module packages in dependency order
	seen := map[*packages.Package]bool{}
	var visit func(p *packages.Package)
	visit = func(p *packages.Package) {
		if seen[p] {
			return
		}
		seen[p] = true
		keys := make([]string, 0, len(p.Imports))
		for k := range p.Imports {
			keys = append(keys, k)
		}
		sort.Strings(keys)
		for _, k := range keys {
			visit(p.Imports[k])
		}
		if strings.HasPrefix(p.PkgPath, "seehuhn.de/go/postscript") {
			if sp := prog.Package(p.Types); sp != nil {
				ld.modOrder = append(ld.modOrder, sp)
				ld.modPkgs[sp] = true
			}
		}
	}
	for _, p := range pkgs {
		visit(p)
	}
	for d, rel := range harnessDirs {
		path := "seehuhn.de/go/postscript"
		if rel != "." {
			path += "/" + rel
		}
		for _, sp := range ld.modOrder {
			if sp.Pkg.Path() == path {
				ld.ssaPkgs[d] = sp
			}
		}
	}
	ld.loadTime = time.Since(t0)
	return ld, nil
}

func inTier(h HarnessCfg, tier string) bool {
	if len(h.Tiers) == 0 {
		return true
	}
	for _, t := range h.Tiers {
		if t == tier {
			return true
		}
	}
	return false
}

func cmdCheck(args []string) int {
	fs := flag.NewFlagSet("check", flag.ExitOnError)
	prop := fs.String("prop", "", "property id")
	tier := fs.String("tier", "quick", "quick|thorough")
	only := fs.String("only", "", "run only this harness function")
	workers := fs.Int("workers", 16, "parallel workers")
	noReplay := fs.Bool("no-replay", false, "skip native replay (debugging only: exits 2)")
	verbose := fs.Bool("v", false, "verbose")
	pin := fs.String("pin", "", "debug: pin inputs and choices to this replay vector")
	budget := fs.Int("budget", 0, "override per-harness wall budget in seconds")
	fs.Parse(args)
	budgetOverride = *budget
	if *pin != "" {
		raw, err := os.ReadFile(*pin)
		if err != nil {
			fmt.Fprintln(os.Stderr, err)
			return 2
		}
		pinned = &replayVec{}
		json.Unmarshal(raw, pinned)
		*only = pinned.Harness
	}
	if p := os.Getenv("VP_CPUPROFILE"); p != "" {
		f, _ := os.Create(p)
		pprof.StartCPUProfile(f)
		defer pprof.StopCPUProfile()
	}
	t0 := time.Now()
	seed := 0
	if s := os.Getenv("VERIF_SEED"); s != "" {
		seed, _ = strconv.Atoi(s)
	}
	checks := loadChecks()
	pc, ok := checks[*prop]
	if !ok {
		fmt.Fprintln(os.Stderr, "no checks configured for", *prop)
		return 2
	}
	var hs []HarnessCfg
	dirSet := map[string]bool{}
	funcsByDir := map[string][]string{}
	for _, h := range pc.Harnesses {
		if !inTier(h, *tier) {
			continue
		}
		if *only != "" && h.Func != *only {
			continue
		}
		hs = append(hs, h)
		dirSet[h.Dir] = true
		dup := false
		for _, f := range funcsByDir[h.Dir] {
			if f == h.Func {
				dup = true
			}
		}
		if !dup {
			funcsByDir[h.Dir] = append(funcsByDir[h.Dir], h.Func)
		}
	}
	if len(hs) == 0 {
		fmt.Fprintln(os.Stderr, "no harness selected")
		return 2
	}
	var dirs []string
	for d := range dirSet {
		dirs = append(dirs, d)
	}
	sort.Strings(dirs)
	ld, err := loadProgram(dirs)
	if err != nil {
		fmt.Println("HARNESS-LOAD-ERROR", err)
		return 2
	}
	known := loadKnown()
	var results []*harnessResult
	broken := false
	// native replay of candidates and cover witnesses
	rp := newReplayer(dirs, funcsByDir, *prop)
	defer rp.close()
	confirmed, spurious, knownSeen, validated := 0, 0, map[string]string{}, 0
	var vioLines []string
	incomplete := []string{}
	post := func(r *harnessResult) {
		cut := r.timedOut // some path of this harness was not explored to its end
		for k, n := range r.notes {
			if strings.HasPrefix(k, "unknown") || strings.HasPrefix(k, "timeout") {
				cut = true
			}
			if strings.HasPrefix(k, "unsupported") || strings.HasPrefix(k, "unwind") || strings.HasPrefix(k, "unknown") || strings.HasPrefix(k, "depth") || strings.HasPrefix(k, "steplimit") || strings.HasPrefix(k, "timeout") {
				incomplete = append(incomplete, fmt.Sprintf("%s: %s (x%d)", r.cfg.Func, k, n))
			}
		}
		if r.timedOut {
			incomplete = append(incomplete, fmt.Sprintf("%s: exploration stopped at its path/time budget", r.cfg.Func))
		}
		if *noReplay {
			for _, v := range r.violations {
				fmt.Printf("CANDIDATE %s site=%s kind=%s known=%q msg=%s model=%v choices=%v\n", v.Harness, v.Site, v.Kind, v.Known, v.Msg, v.Model, v.Choices)
			}
			return
		}
		// de-duplicate by site+known: replay at most 2 models per site
		perSite := map[string]int{}
		for _, v := range r.violations {
			key := v.Site + "|" + v.Known
			if perSite[key] >= 2 {
				continue
			}
			path, out, err := rp.run(r.cfg, v.Harness, v.Model, v.Choices, *tier, r.params)
			if err != nil {
				fmt.Println("REPLAY-ERROR", err)
				broken = true
				continue
			}
			okc := false
			switch v.Kind {
			case "panic", "alloc":
				okc = strings.Contains(out, "VP-PANIC") || strings.Contains(out, "VP-KILLED")
			case "assert":
				okc = strings.Contains(out, "VP-ASSERT-FAIL "+v.Site+"\n")
				if strings.HasPrefix(v.Site, "monitor:") {
					// observed by an engine monitor (no native counterpart): confirmed when the native
					// run follows the same path to its end
					okc = strings.Contains(out, "VP-DONE")
				}
			case "hang":
				okc = strings.Contains(out, "VP-TIMEOUT")
			case "depth":
				okc = strings.Contains(out, "VP-TIMEOUT") || strings.Contains(out, "VP-KILLED")
			}
			if !okc {
				spurious++
				fmt.Printf("SPURIOUS %s site=%s kind=%s replay=%s\n", v.Harness, v.Site, v.Kind, path)
				if *verbose {
					fmt.Println(out)
				}
				continue
			}
			perSite[key]++
			validated++
			if v.Known != "" {
				if _, seen := knownSeen[v.Known]; !seen {
					knownSeen[v.Known] = path
				}
				os.Remove(path)
				continue
			}
			if perSite[key] == 1 {
				confirmed++
				vioLines = append(vioLines, fmt.Sprintf("VIOLATION property=%s replay=%s", *prop, path))
				fmt.Printf("VIOLATION property=%s replay=%s\n", *prop, path)
				fmt.Printf("  violated: harness=%s site=%s kind=%s msg=%s\n", v.Harness, v.Site, v.Kind, v.Msg)
			}
		}
		// cover witnesses
		if !*noReplay {
			for _, label := range r.cfg.Covers {
				cw, ok := r.covers[r.cfg.Func+"|"+label]
				if !ok {
					if cut {
						// the exploration was cut (budget, solver timeout): a missing witness says nothing
						fmt.Printf("INCOMPLETE %s: cover label %q not reached by the part that was explored\n", r.cfg.Func, label)
						continue
					}
					fmt.Printf("VACUOUS %s: cover label %q not reached on any feasible path\n", r.cfg.Func, label)
					broken = true
					continue
				}
				path, out, err := rp.run(r.cfg, r.cfg.Func, cw.Model, cw.Choices, *tier, r.params)
				if err != nil {
					fmt.Println("REPLAY-ERROR", err)
					broken = true
					continue
				}
				if strings.Contains(out, "VP-COVER "+label+"\n") {
					validated++
					os.Remove(path)
				} else {
					fmt.Printf("COVER-MISMATCH %s label=%s: native run does not reach it (replay=%s)\n", r.cfg.Func, label, path)
					if *verbose {
						fmt.Println(out)
					}
					broken = true
				}
			}
		}
	}
	for _, h := range hs {
		r, err := explore(ld, h, *tier, *workers, known, *prop, *verbose)
		if err != nil {
			fmt.Println("CHECK-ERROR", h.Func, err)
			broken = true
			continue
		}
		results = append(results, r)
		fmt.Printf("harness %s: paths=%d (%v) decided=%d filtered=%d queries sat=%d unsat=%d unknown=%d solver=%.1fs wall=%.1fs candidates=%d\n",
			h.Func, r.stats.Paths, r.stats.PathKinds, r.decided, r.stats.Filtered, r.queries.Sat, r.queries.Unsat, r.queries.Unknown, r.solverTime.Seconds(), r.wall.Seconds(), len(r.violations))
		if len(r.engineErrs) > 0 {
			broken = true
			for _, e := range r.engineErrs {
				fmt.Println("ENGINE-ERROR", h.Func, e)
			}
		}
		if *verbose {
			keys := make([]string, 0, len(r.notes))
			for k := range r.notes {
				keys = append(keys, k)
			}
			sort.Strings(keys)
			for _, k := range keys {
				fmt.Printf("  note x%d: %s\n", r.notes[k], k)
			}
		}
		post(r)
	}
	for _, k := range known {
		if k.Property != *prop {
			continue
		}
		if _, ok := knownSeen[k.ID]; ok {
			fmt.Printf("KNOWN-FINDING: property=%s %s [%s]\n", *prop, k.What, k.ID)
		}
	}
	_ = vioLines
	sort.Strings(incomplete)
	for _, s := range incomplete {
		fmt.Println("INCOMPLETE", s)
	}
	writeEvidence(*prop, *tier, seed, pc, results, validated, confirmed, spurious, incomplete, time.Since(t0), ld)
	if *noReplay {
		return 2
	}
	if confirmed > 0 {
		return 1
	}
	if broken {
		return 2
	}
	fmt.Printf("OK property=%s tier=%s harnesses=%d wall=%.1fs\n", *prop, *tier, len(results), time.Since(t0).Seconds())
	return 0
}

func explore(ld *loaded, h HarnessCfg, tier string, workers int, known []KnownFinding, prop string, verbose bool) (*harnessResult, error) {
	sp := ld.ssaPkgs[h.Dir]
	if sp == nil {
		return nil, fmt.Errorf("package for %s not loaded", h.Dir)
	}
	fn := sp.Func(h.Func)
	if fn == nil {
		return nil, fmt.Errorf("harness function %s not found", h.Func)
	}
	w := &World{prog: ld.prog, modulePkgs: ld.modPkgs, notes: map[string]int{}, vioCount: map[string]int{}, covers: map[string]*coverWitness{}, asserts: map[string]bool{}, panicsOK: map[string]bool{}}
	w.cond = sync.NewCond(&w.mu)
	w.opaque = map[string]bool{"text/template": true, "regexp": true, "time": true, "os": true, "reflect": true, "runtime": true, "syscall": true, "embed": true, "encoding/json": true, "html/template": true, "sync/atomic": true, "internal/reflectlite": true}
	w.solverName = h.Solver
	if w.solverName == "" {
		w.solverName = "z3-new"
	}
	w.timeoutMs = h.TimeoutMs
	if w.timeoutMs == 0 {
		w.timeoutMs = 10000
	}
	if h.PanicsOK {
		w.panicsOK[h.Func] = true
	}
	w.depthViolation = h.DepthIsViolation
	w.hangViolation = h.HangIsViolation
	for _, k := range known {
		if k.Property == prop {
			w.known = append(w.known, k)
		}
	}
	if n, ok := h.MaxPaths[tier]; ok {
		w.maxPaths = n
	}
	bs := 300
	if tier == "thorough" {
		bs = 1500
	}
	if s, ok := h.BudgetS[tier]; ok {
		bs = s
	}
	if budgetOverride > 0 {
		bs = budgetOverride
	}
	w.deadline = time.Now().Add(time.Duration(bs) * time.Second)
	stopProgress := make(chan struct{})
	go func() {
		tk := time.NewTicker(15 * time.Second)
		defer tk.Stop()
		for {
			select {
			case <-stopProgress:
				return
			case <-tk.C:
				w.mu.Lock()
				fmt.Fprintf(os.Stderr, "  [%s] paths=%d queue=%d active=%d candidates=%d\n", h.Func, w.pathsDone, len(w.queue), w.active, len(w.violations))
				w.mu.Unlock()
			}
		}
	}()
	defer close(stopProgress)
	if ep := ld.prog.ImportedPackage("errors"); ep != nil {
		if t := ep.Type("errorString"); t != nil {
			w.errStringT = types.NewPointer(t.Type())
		}
	}
	params = map[string]int{}
	for k, v := range h.Params[tier] {
		params[k] = v
	}
	if ov := os.Getenv("VP_PARAMS"); ov != "" {
		for _, kv := range strings.Split(ov, ",") {
			parts := strings.SplitN(kv, "=", 2)
			if len(parts) == 2 {
				n, _ := strconv.Atoi(parts[1])
				params[parts[0]] = n
			}
		}
	}
	t0 := time.Now()
	w.push(h.Func, nil)
	res := &harnessResult{cfg: h, funcs: map[string]int{}, params: params}
	res.stats.PathKinds = map[string]int{}
	var wg sync.WaitGroup
	var rmu sync.Mutex
	var firstErr error
	for i := 0; i < workers; i++ {
		wg.Add(1)
		go func() {
			defer wg.Done()
			ex, err := w.newExec()
			if err != nil {
				rmu.Lock()
				firstErr = err
				rmu.Unlock()
				return
			}
			defer ex.sol.Close()
			ex.initing = true
			ex.initModule(ld.modOrder)
			if vi := sp.Func("VP_INIT"); vi != nil {
				// harness-level warm-up (e.g. loading lookup tables) that persists across paths
				func() {
					defer func() {
						if r := recover(); r != nil {
							if pe, ok := r.(PathEnd); ok {
								w.note("VP_INIT incomplete: " + pe.kind + " " + pe.msg)
								return
							}
							panic(r)
						}
					}()
					ex.stepLimit = 50_000_000
					ex.call(vi, nil, nil)
				}()
				ex.trail = ex.trail[:0]
			}
			ex.initing = false
			for {
				it, ok := w.pop()
				if !ok {
					break
				}
				ex.runPath(fn, it)
				w.done()
			}
			rmu.Lock()
			res.stats.Paths += ex.stats.Paths
			res.stats.Forks += ex.stats.Forks
			res.stats.Merged += ex.stats.Merged
			res.stats.Filtered += ex.stats.Filtered
			for k, v := range ex.stats.PathKinds {
				res.stats.PathKinds[k] += v
			}
			res.queries.Sat += ex.sol.Queries.Sat
			res.queries.Unsat += ex.sol.Queries.Unsat
			res.queries.Unknown += ex.sol.Queries.Unknown
			res.queries.Errors += ex.sol.Queries.Errors
			if ex.sol.Queries.Errors > 0 {
				w.note("solver error line: " + ex.sol.lastErr)
			}
			res.solverTime += ex.sol.Time
			res.decided += ex.decided
			if ex.maxDepth > res.maxDepth {
				res.maxDepth = ex.maxDepth
			}
			for f, n := range ex.funcs {
				if f.Pkg != nil && ld.modPkgs[f.Pkg] && !strings.HasPrefix(f.Name(), "VP_") && !strings.HasPrefix(f.Name(), "vp") {
					res.funcs[fmt.Sprintf("%s (%d instrs)", f.String(), countInstrs(f))] += n
				}
			}
			rmu.Unlock()
		}()
	}
	wg.Wait()
	if firstErr != nil {
		return nil, firstErr
	}
	res.wall = time.Since(t0)
	res.notes = w.notes
	res.violations = w.violations
	res.covers = w.covers
	res.samples = w.samples
	res.engineErrs = w.engineErrs
	res.timedOut = w.timedOut
	for a := range w.asserts {
		res.asserts = append(res.asserts, a)
	}
	sort.Strings(res.asserts)
	return res, nil
}

func countInstrs(f *ssa.Function) int {
	n := 0
	for _, b := range f.Blocks {
		n += len(b.Instrs)
	}
	return n
}

// ---------------- native replay ----------------

type replayer struct {
	dirs       []string
	funcsByDir map[string][]string
	prop       string
	tmp        string
	bins       map[string]string
}

func newReplayer(dirs []string, funcsByDir map[string][]string, prop string) *replayer {
	return &replayer{dirs: dirs, funcsByDir: funcsByDir, prop: prop, bins: map[string]string{}}
}

func (rp *replayer) close() {
	if rp.tmp != "" {
		os.RemoveAll(rp.tmp)
	}
}

func (rp *replayer) binary(dir string) (string, error) {
	if b, ok := rp.bins[dir]; ok {
		return b, nil
	}
	if rp.tmp == "" {
		t, err := os.MkdirTemp("", "vpreplay")
		if err != nil {
			return "", err
		}
		rp.tmp = t
	}
	ov, err := buildOverlay([]string{dir}, true, rp.funcsByDir, rp.tmp)
	if err != nil {
		return "", err
	}
	repl := map[string]string{}
	i := 0
	for virt, src := range ov {
		real := filepath.Join(rp.tmp, fmt.Sprintf("ov_%s_%d.go", dir, i))
		i++
		if err := os.WriteFile(real, src, 0o644); err != nil {
			return "", err
		}
		repl[virt] = real
	}
	ovJSON, _ := json.Marshal(map[string]any{"Replace": repl})
	ovPath := filepath.Join(rp.tmp, "overlay_"+dir+".json")
	os.WriteFile(ovPath, ovJSON, 0o644)
	bin := filepath.Join(rp.tmp, dir+".test")
	rel := harnessDirs[dir]
	cmd := exec.Command("go", "test", "-c", "-vet=off", "-overlay", ovPath, "-o", bin, "./"+rel)
	cmd.Dir = repoDir
	cmd.Env = append(goEnv(), "GOCACHE="+filepath.Join(rp.tmp, "gocache"))
	// reuse the user's build cache when possible (faster); fall back to a private one
	cmd.Env = goEnv()
	out, err := cmd.CombinedOutput()
	if err != nil {
		return "", fmt.Errorf("building native replay binary: %v\n%s", err, out)
	}
	rp.bins[dir] = bin
	return bin, nil
}

type replayVec struct {
	Harness string            `json:"harness"`
	Tier    string            `json:"tier"`
	Values  map[string]uint64 `json:"values"`
	Choices map[string]int64  `json:"choices"`
	Params  map[string]int    `json:"params"`
}

func (rp *replayer) run(h HarnessCfg, harness string, model map[string]uint64, choices map[string]int64, tier string, pr map[string]int) (string, string, error) {
	bin, err := rp.binary(h.Dir)
	if err != nil {
		return "", "", err
	}
	vec := replayVec{Harness: harness, Tier: tier, Values: model, Choices: choices, Params: pr}
	raw, _ := json.MarshalIndent(vec, "", " ")
	sum := sha1.Sum(raw)
	dir := filepath.Join(verifDir, "replays", rp.prop)
	os.MkdirAll(dir, 0o755)
	path := filepath.Join(dir, fmt.Sprintf("%s_%x.json", harness, sum[:6]))
	if err := os.WriteFile(path, raw, 0o644); err != nil {
		return "", "", err
	}
	out := runNative(bin, filepath.Join(repoDir, harnessDirs[h.Dir]), path, harness, 20*time.Second)
	return path, out, nil
}

func runNative(bin, dir, vecPath, harness string, timeout time.Duration) string {
	cmd := exec.Command("sh", "-c", "ulimit -v 8000000; exec \"$0\" -test.run '^TestVPReplay$' -test.v -test.timeout 60s", bin)
	cmd.Dir = dir
	cmd.Env = append(os.Environ(), "VP_REPLAY="+vecPath, "VP_HARNESS="+harness, "GOTRACEBACK=none")
	var sb strings.Builder
	cmd.Stdout = &sb
	cmd.Stderr = &sb
	if err := cmd.Start(); err != nil {
		return "VP-ERROR " + err.Error()
	}
	done := make(chan error, 1)
	go func() { done <- cmd.Wait() }()
	select {
	case err := <-done:
		s := sb.String()
		if err != nil && !strings.Contains(s, "VP-END") && !strings.Contains(s, "VP-ASSUME-FAIL") {
			// process died (fatal error: stack overflow, out of memory, ...)
			s += "\nVP-KILLED " + err.Error() + "\n"
		}
		return s
	case <-time.After(timeout):
		cmd.Process.Kill()
		<-done
		return sb.String() + "\nVP-TIMEOUT\n"
	}
}

func cmdReplay(args []string) int {
	fs := flag.NewFlagSet("replay", flag.ExitOnError)
	file := fs.String("file", "", "replay vector")
	fs.Parse(args)
	if abs, err := filepath.Abs(*file); err == nil {
		*file = abs
	}
	raw, err := os.ReadFile(*file)
	if err != nil {
		fmt.Fprintln(os.Stderr, err)
		return 2
	}
	var vec replayVec
	if err := json.Unmarshal(raw, &vec); err != nil {
		fmt.Fprintln(os.Stderr, err)
		return 2
	}
	checks := loadChecks()
	for prop, pc := range checks {
		for _, h := range pc.Harnesses {
			if h.Func == vec.Harness {
				rp := newReplayer([]string{h.Dir}, map[string][]string{h.Dir: {h.Func}}, prop)
				defer rp.close()
				bin, err := rp.binary(h.Dir)
				if err != nil {
					fmt.Fprintln(os.Stderr, err)
					return 2
				}
				out := runNative(bin, filepath.Join(repoDir, harnessDirs[h.Dir]), *file, h.Func, 30*time.Second)
				fmt.Print(out)
				if strings.Contains(out, "VP-PANIC") || strings.Contains(out, "VP-ASSERT-FAIL") || strings.Contains(out, "VP-TIMEOUT") || strings.Contains(out, "VP-KILLED") {
					return 1
				}
				return 0
			}
		}
	}
	fmt.Fprintln(os.Stderr, "harness not found:", vec.Harness)
	return 2
}

// ---------------- evidence ----------------

func writeEvidence(prop, tier string, seed int, pc PropCfg, results []*harnessResult, validated, confirmed, spurious int, incomplete []string, wall time.Duration, ld *loaded) {
	states, transitions := 0, 0
	var samples []any
	funcs := map[string]int{}
	q := map[string]int{}
	var solverS float64
	var perHarness []any
	pathKinds := map[string]int{}
	for _, r := range results {
		states += r.stats.Paths
		transitions += r.decided
		for _, s := range r.samples {
			samples = append(samples, map[string]string{"harness": r.cfg.Func, "path": s})
		}
		for f, n := range r.funcs {
			funcs[f] += n
		}
		q["sat"] += r.queries.Sat
		q["unsat"] += r.queries.Unsat
		q["unknown"] += r.queries.Unknown
		q["error_lines"] += r.queries.Errors
		solverS += r.solverTime.Seconds()
		for k, v := range r.stats.PathKinds {
			pathKinds[k] += v
		}
		perHarness = append(perHarness, map[string]any{
			"harness": r.cfg.Func, "kernel": r.cfg.Kernel, "what": r.cfg.What, "bounds": r.cfg.Bounds,
			"params": r.params, "paths": r.stats.Paths, "path_kinds": r.stats.PathKinds,
			"solver_decisions": r.decided, "if_converted": r.stats.Merged, "decided_by_domain_filter": r.stats.Filtered, "assert_labels": r.asserts,
			"queries": map[string]int{"sat": r.queries.Sat, "unsat": r.queries.Unsat, "unknown": r.queries.Unknown},
			"solver":  defaultStr(r.cfg.Solver, "z3-new"), "solver_time_s": round1(r.solverTime.Seconds()), "wall_s": round1(r.wall.Seconds()),
			"candidates": len(r.violations), "max_call_depth": r.maxDepth, "budget_exhausted": r.timedOut,
		})
	}
	var fnList []string
	for f := range funcs {
		fnList = append(fnList, f)
	}
	sort.Strings(fnList)
	if len(samples) == 0 {
		samples = append(samples, "no completed path")
	}
	ev := map[string]any{
		"property_id": prop, "tier": tier, "seed": seed, "level": defaultStr(pc.Level, "model_checking"),
		"coverage": map[string]any{
			"states": states, "transitions": transitions, "traces_validated_against_impl": validated,
			"samples": samples, "functions_encoded": fnList, "per_harness": perHarness,
			"queries": q, "solver_time_s": round1(solverS), "path_kinds": pathKinds,
			"spurious": spurious, "incomplete": incomplete,
			"explanation":  "states = completed symbolic paths of the real code (go/ssa of /repo's working tree), transitions = branch/bounds/assert decisions discharged by the SMT solver, traces_validated = solver models (counterexamples and cover witnesses) replayed against the native build with agreeing outcome",
			"load_build_s": round1(ld.loadTime.Seconds()),
		},
		"assumptions": pc.Assumptions,
		"wall_s":      round1(wall.Seconds()),
		"violations":  confirmed,
	}
	os.MkdirAll(filepath.Join(verifDir, "evidence"), 0o755)
	raw, _ := json.MarshalIndent(ev, "", " ")
	os.WriteFile(filepath.Join(verifDir, "evidence", prop+".json"), raw, 0o644)
}

func defaultStr(s, d string) string {
	if s == "" {
		return d
	}
	return s
}

func round1(f float64) float64 { return float64(int(f*10+0.5)) / 10 }

package main

// Self-test of the parts of the engine that decide things without the solver: the simplifying
// term constructors (incl. the IntFloat fast path and the "fits in n signed bits" bookkeeping),
// the interval domain and the range-aware zero extension.  Random expression trees are built
// twice - through the simplifying constructors and as a plain Go evaluation - and compared on
// random assignments.  Run with: cd /verif/engine && go test -count=1 .

import (
	"math"
	"math/rand"
	"testing"
)

type gen struct {
	st    *Store
	r     *rand.Rand
	vars  []*Term
	model map[string]uint64
}

// expr returns a w-bit term (w in {8,16,32,64}) and a function evaluating the same expression
// directly.
func (g *gen) expr(w, depth int) (*Term, func() uint64) {
	st := g.st
	if depth == 0 || g.r.Intn(5) == 0 {
		if g.r.Intn(3) == 0 {
			c := g.r.Uint64() & mask(w)
			if g.r.Intn(2) == 0 {
				c = uint64(g.r.Intn(300)) & mask(w)
			}
			return st.BV(w, c), func() uint64 { return c }
		}
		// a variable of width <= w, extended
		v := g.vars[g.r.Intn(len(g.vars))]
		for v.S.W > w {
			v = g.vars[g.r.Intn(len(g.vars))]
		}
		if v.S.W == w {
			return v, func() uint64 { return g.model[v.N] }
		}
		if g.r.Intn(2) == 0 {
			return st.SExt(v, w), func() uint64 { return uint64(sx(g.model[v.N], v.S.W)) & mask(w) }
		}
		return st.ZExt(v, w), func() uint64 { return g.model[v.N] }
	}
	switch g.r.Intn(8) {
	case 0, 1:
		a, fa := g.expr(w, depth-1)
		b, fb := g.expr(w, depth-1)
		return st.Bin(OAdd, a, b), func() uint64 { return (fa() + fb()) & mask(w) }
	case 2:
		a, fa := g.expr(w, depth-1)
		b, fb := g.expr(w, depth-1)
		return st.Bin(OSub, a, b), func() uint64 { return (fa() - fb()) & mask(w) }
	case 3:
		a, fa := g.expr(w, depth-1)
		return st.Neg(a), func() uint64 { return (-fa()) & mask(w) }
	case 4:
		a, fa := g.expr(w, depth-1)
		c := uint64(g.r.Intn(20))
		return st.Bin(OMul, a, st.BV(w, c)), func() uint64 { return (fa() * c) & mask(w) }
	case 5:
		// truncation of a wider expression
		if w < 64 {
			a, fa := g.expr(w*2, depth-1)
			return st.Extract(a, w-1, 0), func() uint64 { return fa() & mask(w) }
		}
		fallthrough
	case 6:
		c, fc := g.expr(w, depth-1)
		a, fa := g.expr(w, depth-1)
		b, fb := g.expr(w, depth-1)
		k := uint64(g.r.Intn(200))
		cond := st.Bin(OSLt, c, st.BV(w, k))
		return st.Ite(cond, a, b), func() uint64 {
			if sx(fc(), w) < sx(k, w) {
				return fa()
			}
			return fb()
		}
	default:
		if w > 8 {
			a, fa := g.expr(w/2, depth-1)
			if g.r.Intn(2) == 0 {
				return st.SExt(a, w), func() uint64 { return uint64(sx(fa(), w/2)) & mask(w) }
			}
			return st.ZExt(a, w), func() uint64 { return fa() }
		}
		a, fa := g.expr(w, depth-1)
		return a, fa
	}
}

func newGen(seed int64) *gen {
	g := &gen{st: NewStore(), r: rand.New(rand.NewSource(seed)), model: map[string]uint64{}}
	for i, w := range []int{8, 8, 16, 16, 32, 64} {
		g.vars = append(g.vars, g.st.Var(string(rune('a'+i)), SBV(w)))
	}
	return g
}

func (g *gen) assign(small bool) {
	for _, v := range g.vars {
		x := g.r.Uint64()
		if small || g.r.Intn(2) == 0 {
			x = uint64(int64(g.r.Intn(201) - 100))
		}
		g.model[v.N] = x & mask(v.S.W)
	}
}

func TestSimplifierAgainstDirectEvaluation(t *testing.T) {
	narrow := 0
	defer func() { t.Logf("%d (term, assignment) pairs carried a signed-bits claim below the width", narrow) }()
	for seed := int64(0); seed < 30000; seed++ {
		g := newGen(seed)
		w := []int{8, 16, 32, 64}[g.r.Intn(4)]
		term, direct := g.expr(w, 4)
		for k := 0; k < 6; k++ {
			g.assign(k%2 == 0)
			got, ok := evalTerm(term, g.model, map[int]uint64{})
			if !ok {
				t.Fatalf("seed %d: term not evaluable: %s", seed, termString(term, 8))
			}
			if want := direct(); got != want {
				t.Fatalf("seed %d: simplified term evaluates to %#x, expression to %#x\n%s\nmodel %v", seed, got, want, termString(term, 10), g.model)
			}
			// the signed-bits claim
			if b := g.st.sbits(term); b < term.S.W {
				narrow++
				v := sx(got, term.S.W)
				if v < -(int64(1)<<uint(b-1)) || v >= int64(1)<<uint(b-1) {
					t.Fatalf("seed %d: sbits claims %d bits, value %d\n%s\nmodel %v", seed, b, v, termString(term, 10), g.model)
				}
			}
		}
	}
}

func testExec(st *Store) *Exec {
	return &Exec{st: st, rngCache: map[int]rng{}, varRng: map[int]rng{}, decDigits: map[int]decDigit{}}
}

func TestIntervalsAndRangeAwareExtension(t *testing.T) {
	rewritten, bounded := 0, 0
	defer func() { t.Logf("zextNoWrap rewrote %d of 30000 terms; %d terms had a non-trivial interval", rewritten, bounded) }()
	for seed := int64(0); seed < 30000; seed++ {
		g := newGen(seed + 100000)
		ex := testExec(g.st)
		// variable ranges (signed), as `learn` would record them from assumptions
		type bound struct{ lo, hi int64 }
		bounds := map[string]bound{}
		for _, v := range g.vars {
			if g.r.Intn(4) == 0 {
				continue
			}
			f := fullRng(v.S.W)
			lo := int64(g.r.Intn(300) - 150)
			hi := lo + int64(g.r.Intn(300))
			if lo < f.slo {
				lo = f.slo
			}
			if hi > f.shi {
				hi = f.shi
			}
			if hi < lo {
				hi = lo
			}
			if lo > f.shi {
				lo, hi = f.shi, f.shi
			}
			ex.varRng[v.ID] = rng{sOK: true, slo: lo, shi: hi}.complete(v.S.W)
			bounds[v.N] = bound{lo, hi}
		}
		w := []int{8, 16, 32}[g.r.Intn(3)]
		term, direct := g.expr(w, 4)
		tw := w * 2
		ext := ex.zextNoWrap(term, tw)
		r := ex.rangeOf(term)
		if ext.Op != OZExt && ext.Op != OConst {
			rewritten++
		}
		if f := fullRng(w); r.sOK && (r.slo > f.slo || r.shi < f.shi) || r.uOK && (r.ulo > 0 || r.uhi < f.uhi) {
			bounded++
		}
		for k := 0; k < 8; k++ {
			for _, v := range g.vars {
				if b, ok := bounds[v.N]; ok {
					g.model[v.N] = uint64(b.lo+g.r.Int63n(b.hi-b.lo+1)) & mask(v.S.W)
				} else {
					g.model[v.N] = g.r.Uint64() & mask(v.S.W)
				}
			}
			want := direct()
			if r.uOK && (want < r.ulo || want > r.uhi) {
				var dump func(x *Term, ind string)
				dump = func(x *Term, ind string) {
					v, _ := evalTerm(x, g.model, map[int]uint64{})
					t.Logf("%s%s  range=%+v value=%d", ind, termString(x, 2), ex.rangeOf(x), v)
					for _, a := range x.A {
						dump(a, ind+"  ")
					}
				}
				dump(term, "")
				t.Fatalf("seed %d: unsigned interval [%d,%d] misses %d\n%s\nmodel %v", seed, r.ulo, r.uhi, want, termString(term, 10), g.model)
			}
			if r.sOK && (sx(want, w) < r.slo || sx(want, w) > r.shi) {
				t.Fatalf("seed %d: signed interval [%d,%d] misses %d\n%s\nmodel %v", seed, r.slo, r.shi, sx(want, w), termString(term, 10), g.model)
			}
			got, ok := evalTerm(ext, g.model, map[int]uint64{})
			if !ok || got != want {
				t.Fatalf("seed %d: zextNoWrap gives %#x, zero extension is %#x\n%s\n=> %s\nmodel %v", seed, got, want, termString(term, 10), termString(ext, 10), g.model)
			}
		}
	}
}

func TestIntFloatAgainstIEEE(t *testing.T) {
	for seed := int64(0); seed < 30000; seed++ {
		g := newGen(seed + 200000)
		st := g.st
		// float expressions over integers converted from narrow terms
		var build func(depth int) (*Term, func() float64)
		build = func(depth int) (*Term, func() float64) {
			if depth == 0 || g.r.Intn(4) == 0 {
				if g.r.Intn(3) == 0 {
					c := float64(g.r.Intn(2001) - 1000)
					if g.r.Intn(4) == 0 {
						c += 0.5
					}
					return st.FP(c), func() float64 { return c }
				}
				a, fa := g.expr([]int{8, 16, 32}[g.r.Intn(3)], 2)
				w := a.S.W
				if g.r.Intn(2) == 0 {
					return st.FFromS(a), func() float64 { return float64(sx(fa(), w)) }
				}
				return st.FFromU(a), func() float64 { return float64(fa()) }
			}
			a, fa := build(depth - 1)
			b, fb := build(depth - 1)
			switch g.r.Intn(4) {
			case 0:
				return st.FBin(OFAdd, a, b), func() float64 { return fa() + fb() }
			case 1:
				return st.FBin(OFSub, a, b), func() float64 { return fa() - fb() }
			case 2:
				c := float64(g.r.Intn(9) + 1)
				return st.FBin(OFMul, a, st.FP(c)), func() float64 { return fa() * c }
			default:
				return st.FUn(OFAbs, a), func() float64 { return math.Abs(fa()) }
			}
		}
		x, fx := build(3)
		y, fy := build(3)
		cmp := []*Term{st.FBin(OFLt, x, y), st.FBin(OFLe, x, y), st.FBin(OFEq, x, y)}
		for k := 0; k < 6; k++ {
			g.assign(k%2 == 0)
			vx, vy := fx(), fy()
			want := []bool{vx < vy, vx <= vy, vx == vy}
			for i, c := range cmp {
				got, ok := evalTerm(c, g.model, map[int]uint64{})
				if !ok {
					continue // an operator evalTerm does not model
				}
				if (got != 0) != want[i] {
					t.Fatalf("seed %d: comparison %d of %g and %g evaluates to %v\n%s\nmodel %v", seed, i, vx, vy, got != 0, termString(c, 10), g.model)
				}
			}
			if got, ok := evalTerm(x, g.model, map[int]uint64{}); ok && x.S.K == KFP {
				if f := math.Float64frombits(got); f != vx && !(math.IsNaN(f) && math.IsNaN(vx)) {
					t.Fatalf("seed %d: float term evaluates to %g, IEEE gives %g\n%s\nmodel %v", seed, f, vx, termString(x, 10), g.model)
				}
			}
		}
	}
}

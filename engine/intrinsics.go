package main

import (
	"fmt"
	"go/types"
	"math"
	"os"
	"regexp"
	"strconv"
	"strings"

	"golang.org/x/tools/go/ssa"
)

type intrinsicFn func(ex *Exec, fn *ssa.Function, args []Value) Value

type lineScanner struct {
	lines []string
	sym   [][]*Term // lines with symbolic bytes (then lines is unused)
	pos   int
}

func (s *lineScanner) n() int {
	if s.sym != nil {
		return len(s.sym)
	}
	return len(s.lines)
}

var vpFileType = types.NewNamed(types.NewTypeName(0, nil, "vpEmbeddedFile", nil), types.NewStruct(nil, nil), nil)

var intrinsics map[string]intrinsicFn
var vpIntrinsics map[string]intrinsicFn

func (ex *Exec) argStr(v Value) string {
	s, ok := v.(StringV)
	if !ok || !s.concrete() {
		ex.unsupported("expected concrete string argument, got %s", showValue(v))
	}
	return s.str()
}

func (ex *Exec) argInt(v Value) int64 {
	t, ok := v.(*Term)
	if !ok || t.Op != OConst {
		ex.unsupported("expected concrete integer argument, got %s", showValue(v))
	}
	return t.I()
}

func (ex *Exec) freshName(base string) string {
	k := ex.nameCount[base]
	ex.nameCount[base] = k + 1
	if k == 0 {
		return base
	}
	return fmt.Sprintf("%s#%d", base, k)
}

func (ex *Exec) input(name string, s Sort) *Term {
	v := ex.st.Var(ex.freshName(name), s)
	ex.inputs = append(ex.inputs, v)
	ex.pin(v)
	return v
}

// pin constrains an input to the value of the pinned replay vector (debugging aid).
func (ex *Exec) pin(v *Term) {
	if pinned == nil {
		return
	}
	val := pinned.Values[v.N]
	switch v.S.K {
	case KBool:
		ex.assert(ex.st.Eq(v, ex.st.Bool(val != 0)))
	case KBV:
		ex.assert(ex.st.Eq(v, ex.st.BV(v.S.W, val)))
	case KReal:
		c := ex.st.RConst(math.Float64frombits(val))
		ex.assert(ex.st.And(ex.st.rbin(ORLe, v, c), ex.st.rbin(ORLe, c, v)))
	default:
		ex.assert(ex.st.Eq(ex.st.build(OFBits, SBV(64), 0, 0, v), ex.st.BV(64, val)))
	}
}

func (ex *Exec) errorValue(msg string) Value {
	// *errors.errorString
	if ex.w.errStringT == nil {
		ex.unsupported("errors package not loaded")
	}
	l := ex.newLoc(ex.w.errStringT.Elem())
	l.kids[0].v = StringV{s: msg}
	return IfaceV{t: ex.w.errStringT, v: l}
}

func (ex *Exec) stringSlice(ss []string) Value {
	arr := ex.newArray(types.Typ[types.String], len(ss))
	for k, s := range ss {
		ex.kid(arr, k).v = StringV{s: s}
	}
	return SliceV{arr: arr, len: len(ss), cap: len(ss)}
}

// writeTo calls Write(p) on an io.Writer interface value.
func (ex *Exec) writeTo(w Value, p SliceV) Value {
	iv := ex.ifaceOf(w)
	if iv.t == nil {
		ex.end("panic", "%s:nil-deref: Write on nil writer", ex.siteName())
	}
	sel := ex.prog.MethodSets.MethodSet(iv.t).Lookup(nil, "Write")
	if sel == nil {
		ex.unsupported("no Write method on %s", iv.t)
	}
	fn := ex.prog.MethodValue(sel)
	return ex.call(fn, []Value{iv.v, p}, nil)
}

// nativeErr turns a native library error into an opaque error value (nil stays nil).
func (ex *Exec) nativeErr(err error) Value {
	if err == nil {
		return IfaceV{}
	}
	return ex.errorValue(err.Error())
}

func (ex *Exec) byteSliceTerms(v Value) []*Term {
	s := v.(SliceV)
	bs := make([]*Term, s.len)
	for i := 0; i < s.len; i++ {
		bs[i] = ex.load(ex.kid(s.arr, s.off+i)).(*Term)
	}
	return bs
}

func (ex *Exec) newByteSlice(bs []*Term) SliceV {
	arr := ex.newArray(types.Typ[types.Uint8], len(bs))
	for i, b := range bs {
		ex.kid(arr, i).v = b
	}
	return SliceV{arr: arr, len: len(bs), cap: len(bs)}
}

// nativeArgs converts values to native Go values for formatting; ok=false if symbolic.
func (ex *Exec) nativeArg(v Value) (any, bool) {
	switch x := v.(type) {
	case *Term:
		if x.Op != OConst {
			return nil, false
		}
		switch x.S.K {
		case KBool:
			return x.C != 0, true
		case KFP:
			return x.F(), true
		default:
			return x.I(), true
		}
	case StringV:
		if !x.concrete() {
			return nil, false
		}
		return x.str(), true
	case IfaceV:
		if x.t == nil {
			return nil, true
		}
		inner, ok := ex.nativeArg(x.v)
		if !ok {
			return nil, false
		}
		// keep unsignedness for formatting
		if b, isB := x.t.Underlying().(*types.Basic); isB {
			if t, isT := x.v.(*Term); isT && t.S.K == KBV {
				if _, signed, isInt := intWidth(b); isInt && !signed {
					return t.C, true
				}
				if b.Kind() == types.Int32 {
					return int32(t.I()), true
				}
				if b.Kind() == types.Uint8 {
					return uint8(t.C), true
				}
			}
		}
		return inner, true
	case *LazyV:
		return nil, false
	case SliceV:
		if x.arr != nil && x.arr.elem != nil {
			if b, ok := x.arr.elem.Underlying().(*types.Basic); ok && b.Kind() == types.Uint8 {
				raw := make([]byte, x.len)
				for i := 0; i < x.len; i++ {
					t := ex.load(ex.kid(x.arr, x.off+i)).(*Term)
					if t.Op != OConst {
						return nil, false
					}
					raw[i] = byte(t.C)
				}
				return raw, true
			}
		}
		return nil, false
	}
	return nil, false
}

var intFormatRe = regexp.MustCompile(`^([^%]*)%(0?)(\d?)([Xxo])$`)

func (ex *Exec) sprintf(format Value, rest Value) StringV {
	f, ok := format.(StringV)
	if !ok || !f.concrete() {
		return StringV{s: "<fmt>"}
	}
	// prefix%[0][n]X / x / o of one symbolic integer: exact symbolic formatter
	if m := intFormatRe.FindStringSubmatch(f.str()); m != nil {
		if sl, ok := rest.(SliceV); ok && sl.len == 1 {
			if iv, ok := ex.load(ex.kid(sl.arr, sl.off)).(IfaceV); ok {
				if t, ok := iv.v.(*Term); ok && t.Op != OConst && t.S.K == KBV {
					minDigits := 1
					if m[3] != "" {
						minDigits = int(m[3][0] - '0')
						if m[2] != "0" {
							ex.unsupported("space-padded integer formatting of a symbolic value")
						}
					}
					shift := 4
					if m[4] == "o" {
						shift = 3
					}
					st := ex.st
					v := st.ZExt(t, 64)
					if _, signed, _ := intInfo(iv.t); signed && t.S.W < 64 {
						ex.checkPanic("fmt-negative", st.Bin(OSLt, t, st.BV(t.S.W, 0)), "negative value formatted (sign not modelled)")
					}
					nd := minDigits
					for shift*nd < 64 && ex.branch(st.Bin(OULe, st.BV(64, uint64(1)<<uint(shift*nd)), v)) {
						nd++
					}
					bs := ex.strBytes(StringV{s: m[1]})
					letter := byte('A')
					if m[4] == "x" {
						letter = 'a'
					}
					for k := nd - 1; k >= 0; k-- {
						dig := st.Extract(st.Bin(OLShr, v, st.BV(64, uint64(shift*k))), shift-1, 0)
						d := st.ZExt(dig, 8)
						if shift == 3 {
							bs = append(bs, st.Bin(OAdd, d, st.BV(8, '0')))
						} else {
							bs = append(bs, st.Ite(st.Bin(OULt, d, st.BV(8, 10)), st.Bin(OAdd, d, st.BV(8, '0')), st.Bin(OAdd, d, st.BV(8, uint64(letter-10)))))
						}
					}
					return ex.mkString(bs)
				}
			}
		}
	}
	var nargs []any
	if sl, ok := rest.(SliceV); ok {
		var vals []Value
		allNative := true
		for i := 0; i < sl.len; i++ {
			v := ex.load(ex.kid(sl.arr, sl.off+i))
			vals = append(vals, v)
			a, ok := ex.nativeArg(v)
			if !ok {
				allNative = false
			}
			nargs = append(nargs, a)
		}
		if !allNative {
			if ex.spec > 0 {
				abortMerge()
			}
			if r, ok := ex.symFormat(f.str(), vals); ok {
				return r
			}
			return StringV{s: "<fmt:" + f.str() + ">"}
		}
	}
	return StringV{s: fmt.Sprintf(f.str(), nargs...)}
}

func fpArg(v Value) *Term { return v.(*Term) }

func init() {
	vpIntrinsics = map[string]intrinsicFn{
		"vpInt64": func(ex *Exec, fn *ssa.Function, a []Value) Value { return ex.input(ex.argStr(a[0]), SBV(64)) },
		"vpInt":   func(ex *Exec, fn *ssa.Function, a []Value) Value { return ex.input(ex.argStr(a[0]), SBV(64)) },
		"vpInt32": func(ex *Exec, fn *ssa.Function, a []Value) Value { return ex.input(ex.argStr(a[0]), SBV(32)) },
		"vpInt16": func(ex *Exec, fn *ssa.Function, a []Value) Value { return ex.input(ex.argStr(a[0]), SBV(16)) },
		"vpUint16": func(ex *Exec, fn *ssa.Function, a []Value) Value {
			return ex.input(ex.argStr(a[0]), SBV(16))
		},
		"vpUint32": func(ex *Exec, fn *ssa.Function, a []Value) Value {
			return ex.input(ex.argStr(a[0]), SBV(32))
		},
		"vpByte": func(ex *Exec, fn *ssa.Function, a []Value) Value { return ex.input(ex.argStr(a[0]), SBV(8)) },
		"vpBool": func(ex *Exec, fn *ssa.Function, a []Value) Value { return ex.input(ex.argStr(a[0]), SBool) },
		"vpFloat64": func(ex *Exec, fn *ssa.Function, a []Value) Value {
			return ex.input(ex.argStr(a[0]), SFP)
		},
		"vpBytes": func(ex *Exec, fn *ssa.Function, a []Value) Value {
			name := ex.freshName(ex.argStr(a[0]))
			n := int(ex.argInt(a[1]))
			bs := make([]*Term, n)
			for i := range bs {
				v := ex.st.Var(fmt.Sprintf("%s[%d]", name, i), SBV(8))
				ex.inputs = append(ex.inputs, v)
				ex.pin(v)
				bs[i] = v
			}
			return ex.newByteSlice(bs)
		},
		"vpChoose": func(ex *Exec, fn *ssa.Function, a []Value) Value {
			name := ex.freshName(ex.argStr(a[0]))
			return ex.st.BVs(64, int64(ex.choose(name, int(ex.argInt(a[1])))))
		},
		"vpAssume": func(ex *Exec, fn *ssa.Function, a []Value) Value {
			c := a[0].(*Term)
			if c.Op == OConst {
				if c.C == 0 {
					ex.end("infeasible", "assumption false")
				}
				return nil
			}
			d := ex.memo(func() int64 {
				if ex.check(c) == Unsat {
					return 0
				}
				return 1
			})
			if d == 0 {
				ex.end("infeasible", "assumption unsatisfiable")
			}
			ex.assert(c)
			return nil
		},
		"vpAssert": func(ex *Exec, fn *ssa.Function, a []Value) Value {
			label := ex.argStr(a[0])
			c := a[1].(*Term)
			ex.w.assertSeen(ex.harness, label)
			nc := ex.st.Not(c)
			if nc.Op == OConst && nc.C == 0 {
				return nil
			}
			d := ex.memo(func() int64 {
				if ex.decide(nc) == 0 {
					ex.stats.Filtered++
					return 0
				}
				r := ex.check(nc)
				if r == Unsat {
					return 0
				}
				if r == Unknown {
					ex.w.note("unknown verdict at assert " + label)
					ex.stats.PathKinds["unknown-assert"]++
					return 0
				}
				ex.report("assert", label, "assertion "+label+" fails", nc)
				return 1
			})
			if nc.Op == OConst {
				ex.end("assert-fail", "assertion %s fails on this path", label)
			}
			if d == 1 && !ex.replaying() && ex.check(c) == Unsat {
				ex.end("assert-fail", "assertion %s fails on every input of this path", label)
			}
			ex.assert(c)
			return nil
		},
		"vpCover": func(ex *Exec, fn *ssa.Function, a []Value) Value {
			label := ex.argStr(a[0])
			if !ex.covers[label] {
				ex.covers[label] = true
				if ex.w.needCover(ex.harness, label) {
					if ex.check() == Sat {
						ex.w.addCover(ex.harness, label, ex.sol.Model(ex.inputs), copyChoices(ex.choices))
					}
				}
			}
			return nil
		},
		"vpUnwind": func(ex *Exec, fn *ssa.Function, a []Value) Value {
			ex.unwindLim = int(ex.argInt(a[0]))
			return nil
		},
		"vpStepLimit": func(ex *Exec, fn *ssa.Function, a []Value) Value {
			ex.stepLimit = ex.steps + int(ex.argInt(a[0]))
			return nil
		},
		"vpAllocLimit": func(ex *Exec, fn *ssa.Function, a []Value) Value {
			ex.allocLimit = ex.argInt(a[0])
			return nil
		},
		"vpDepthLimit": func(ex *Exec, fn *ssa.Function, a []Value) Value {
			ex.depthLimit = int(ex.argInt(a[0]))
			return nil
		},
		"vpMapOrder": func(ex *Exec, fn *ssa.Function, a []Value) Value {
			ex.mapOrder = a[0].(*Term).C != 0
			return nil
		},
		"vpLazy": func(ex *Exec, fn *ssa.Function, a []Value) Value {
			return &LazyV{gen: a[0].(*FuncV)}
		},
		"vpSymbolic": func(ex *Exec, fn *ssa.Function, a []Value) Value { return ex.st.True },
		"vpFrames": func(ex *Exec, fn *ssa.Function, a []Value) Value {
			name := ex.argStr(a[0])
			n := 0
			for f := ex.frame; f != nil; f = f.caller {
				if f.fn.Name() == name {
					n++
				}
			}
			return ex.st.BVs(64, int64(n))
		},
		"vpSameSlice": func(ex *Exec, fn *ssa.Function, a []Value) Value {
			// identity of two slices held in interfaces: same backing array, offset and length
			x, y := ex.ifaceOf(a[0]), ex.ifaceOf(a[1])
			xs, ok1 := x.v.(SliceV)
			ys, ok2 := y.v.(SliceV)
			if !ok1 || !ok2 {
				return ex.st.False
			}
			return ex.st.Bool(xs.arr == ys.arr && xs.off == ys.off && xs.len == ys.len)
		},
		"vpSameLazy": func(ex *Exec, fn *ssa.Function, a []Value) Value {
			x, ok1 := a[0].(*LazyV)
			y, ok2 := a[1].(*LazyV)
			return ex.st.Bool(ok1 && ok2 && x == y)
		},
		"vpSameRef": func(ex *Exec, fn *ssa.Function, a []Value) Value {
			x, y := ex.ifaceOf(a[0]), ex.ifaceOf(a[1])
			switch xv := x.v.(type) {
			case SliceV:
				yv, ok := y.v.(SliceV)
				if !ok {
					return ex.st.False
				}
				return ex.st.Bool(xv.len == yv.len && (xv.len == 0 || (xv.arr == yv.arr && xv.off == yv.off)))
			case *MapObj:
				yv, ok := y.v.(*MapObj)
				return ex.st.Bool(ok && xv == yv)
			}
			return ex.st.False
		},
		"vpGlobalWrites": func(ex *Exec, fn *ssa.Function, a []Value) Value {
			return ex.st.BVs(64, int64(ex.globalWrites))
		},
		"vpParam": func(ex *Exec, fn *ssa.Function, a []Value) Value {
			if v, ok := params[ex.argStr(a[0])]; ok {
				return ex.st.BVs(64, int64(v))
			}
			return a[1]
		},
		"vpFileLines": func(ex *Exec, fn *ssa.Function, a []Value) Value {
			name := ex.argStr(a[0])
			dir := repoDir + strings.TrimPrefix(fn.Pkg.Pkg.Path(), "seehuhn.de/go/postscript")
			raw, err := os.ReadFile(dir + "/" + name)
			if err != nil {
				ex.unsupported("vpFileLines: %v", err)
			}
			lines := strings.Split(strings.TrimSuffix(string(raw), "\n"), "\n")
			return ex.stringSlice(lines)
		},
		"vpUnlockedGlobalWrites": func(ex *Exec, fn *ssa.Function, a []Value) Value {
			return ex.st.BVs(64, int64(ex.unlockedGlobalWrites))
		},
		"vpLockViolations": func(ex *Exec, fn *ssa.Function, a []Value) Value {
			// lockset discipline: package-level state that is written after initialisation must
			// never be read without a lock held
			n := 0
			for o := range ex.writtenTagged {
				if ex.unlockedReads[o] {
					n++
				}
			}
			return ex.st.BVs(64, int64(n))
		},
		"vpRealRange": func(ex *Exec, fn *ssa.Function, a []Value) Value {
			// an arbitrary finite float64 in [lo, hi], in the RELAX (real + rounding slack) encoding
			name := ex.freshName(ex.argStr(a[0]))
			lo, hi := a[1].(*Term).F(), a[2].(*Term).F()
			v := ex.st.RVar(name, false)
			ex.inputs = append(ex.inputs, v)
			ex.pin(v)
			ex.assert(ex.st.And(ex.st.rbin(ORLe, ex.st.RConst(lo), v), ex.st.rbin(ORLe, v, ex.st.RConst(hi))))
			ex.realRange[v.ID] = rint{lo, hi}
			ex.w.note("encoding: RELAX (reals with rounding slack) for float64 inputs created by vpRealRange")
			return v
		},
		"vpEmitted": func(ex *Exec, fn *ssa.Function, a []Value) Value {
			k := int(ex.argInt(a[0]))
			if k < 0 || k >= len(ex.emitted) {
				ex.unsupported("vpEmitted(%d): only %d numbers were emitted", k, len(ex.emitted))
			}
			return ex.emitted[k]
		},
		"vpNote": func(ex *Exec, fn *ssa.Function, a []Value) Value {
			ex.observed = append(ex.observed, ex.argStr(a[0]))
			return nil
		},
	}

	str := func(s string) Value { return StringV{s: s} }
	_ = str
	intrinsics = map[string]intrinsicFn{
		"fmt.Sprintf": func(ex *Exec, fn *ssa.Function, a []Value) Value { return ex.sprintf(a[0], a[1]) },
		"fmt.Errorf": func(ex *Exec, fn *ssa.Function, a []Value) Value {
			return ex.errorValue(ex.sprintf(a[0], a[1]).s)
		},
		"fmt.Sprint": func(ex *Exec, fn *ssa.Function, a []Value) Value {
			var parts []any
			if sl, ok := a[0].(SliceV); ok {
				for i := 0; i < sl.len; i++ {
					na, ok := ex.nativeArg(ex.load(ex.kid(sl.arr, sl.off+i)))
					if !ok {
						return StringV{s: "<fmt>"}
					}
					parts = append(parts, na)
				}
			}
			return StringV{s: fmt.Sprint(parts...)}
		},
		"fmt.Println": func(ex *Exec, fn *ssa.Function, a []Value) Value {
			return TupleV{ex.st.BV(64, 0), IfaceV{}}
		},
		"fmt.Printf": func(ex *Exec, fn *ssa.Function, a []Value) Value {
			return TupleV{ex.st.BV(64, 0), IfaceV{}}
		},
		"strconv.Itoa": func(ex *Exec, fn *ssa.Function, a []Value) Value {
			return StringV{s: strconv.Itoa(int(ex.argInt(a[0])))}
		},
		"math.Float64bits": func(ex *Exec, fn *ssa.Function, a []Value) Value {
			f := a[0].(*Term)
			if f.Op == OConst {
				return ex.st.BV(64, math.Float64bits(f.F()))
			}
			if f.S.K != KFP {
				ex.unsupported("math.Float64bits of a non-IEEE term")
			}
			return ex.st.build(OFBits, SBV(64), 0, 0, f)
		},
		"math.Abs": func(ex *Exec, fn *ssa.Function, a []Value) Value {
			if ex.isReal(a[0]) {
				return ex.relaxAbs(fpArg(a[0]))
			}
			return ex.st.FUn(OFAbs, fpArg(a[0]))
		},
		"math.Sqrt": func(ex *Exec, fn *ssa.Function, a []Value) Value {
			return ex.st.build(OFSqrt, SFP, 0, 0, fpArg(a[0]))
		},
		"math.Round": func(ex *Exec, fn *ssa.Function, a []Value) Value {
			if ex.isReal(a[0]) {
				return ex.relaxRound(fpArg(a[0]))
			}
			return ex.st.FRound(fpArg(a[0]), 0)
		},
		"math.Trunc": func(ex *Exec, fn *ssa.Function, a []Value) Value { return ex.st.FRound(fpArg(a[0]), 1) },
		"math.Ceil":  func(ex *Exec, fn *ssa.Function, a []Value) Value { return ex.st.FRound(fpArg(a[0]), 2) },
		"math.Floor": func(ex *Exec, fn *ssa.Function, a []Value) Value { return ex.st.FRound(fpArg(a[0]), 3) },
		"math.RoundToEven": func(ex *Exec, fn *ssa.Function, a []Value) Value {
			return ex.st.FRound(fpArg(a[0]), 4)
		},
		"math.IsNaN": func(ex *Exec, fn *ssa.Function, a []Value) Value {
			if ex.isReal(a[0]) {
				return ex.st.False
			}
			return ex.st.FUn(OFIsNaN, fpArg(a[0]))
		},
		"math.IsInf": func(ex *Exec, fn *ssa.Function, a []Value) Value {
			f := fpArg(a[0])
			sign := a[1].(*Term)
			st := ex.st
			if sign.Op != OConst {
				ex.unsupported("math.IsInf with symbolic sign")
			}
			switch s := sign.I(); {
			case s > 0:
				return st.FBin(OFEq, f, st.FP(math.Inf(1)))
			case s < 0:
				return st.FBin(OFEq, f, st.FP(math.Inf(-1)))
			}
			return st.FUn(OFIsInf, f)
		},
		"math.Inf": func(ex *Exec, fn *ssa.Function, a []Value) Value {
			if ex.argInt(a[0]) >= 0 {
				return ex.st.FP(math.Inf(1))
			}
			return ex.st.FP(math.Inf(-1))
		},
		"math.NaN": func(ex *Exec, fn *ssa.Function, a []Value) Value { return ex.st.FP(math.NaN()) },
		// bytealg.MakeNoZero(n): a byte slice of length and capacity n with unspecified contents
		// (strings.Builder.grow); zero-filled here, callers write before they read.
		"internal/bytealg.MakeNoZero": func(ex *Exec, fn *ssa.Function, a []Value) Value {
			n := ex.st.BVs(64, ex.argInt(a[0]))
			ex.allocCheck(n, 1)
			c := int(ex.argInt(a[0]))
			return SliceV{arr: ex.newArray(types.Typ[types.Uint8], c), len: c, cap: c}
		},
		"internal/bytealg.Compare": func(ex *Exec, fn *ssa.Function, a []Value) Value {
			x, y := ex.byteSliceTerms(a[0]), ex.byteSliceTerms(a[1])
			st := ex.st
			lt := ex.bytesLess(x, y, false)
			gt := ex.bytesLess(y, x, false)
			return st.Ite(lt, st.BVs(64, -1), st.Ite(gt, st.BV(64, 1), st.BV(64, 0)))
		},
		"bytes.Equal": func(ex *Exec, fn *ssa.Function, a []Value) Value {
			x, y := ex.byteSliceTerms(a[0]), ex.byteSliceTerms(a[1])
			if len(x) != len(y) {
				return ex.st.False
			}
			r := ex.st.True
			for i := range x {
				r = ex.st.And(r, ex.st.Eq(x[i], y[i]))
			}
			return r
		},
		"sort.Slice": func(ex *Exec, fn *ssa.Function, a []Value) Value {
			iv := ex.ifaceOf(a[0])
			s, ok := iv.v.(SliceV)
			if !ok {
				ex.unsupported("sort.Slice on %T", iv.v)
			}
			less := a[1]
			ex.insertionSort(s, func(i, j int) bool {
				r := ex.callValue(less, []Value{ex.st.BVs(64, int64(i)), ex.st.BVs(64, int64(j))})
				return ex.branch(r.(*Term))
			})
			return nil
		},
		"sort.Strings": func(ex *Exec, fn *ssa.Function, a []Value) Value {
			s := a[0].(SliceV)
			ex.insertionSort(s, func(i, j int) bool {
				x := ex.load(ex.kid(s.arr, s.off+i)).(StringV)
				y := ex.load(ex.kid(s.arr, s.off+j)).(StringV)
				return ex.branch(ex.strLess(x, y, false))
			})
			return nil
		},
		"slices.Sort": func(ex *Exec, fn *ssa.Function, a []Value) Value {
			s := a[0].(SliceV)
			ex.insertionSort(s, func(i, j int) bool {
				x := ex.load(ex.kid(s.arr, s.off+i))
				y := ex.load(ex.kid(s.arr, s.off+j))
				switch xv := x.(type) {
				case StringV:
					return ex.branch(ex.strLess(xv, y.(StringV), false))
				case *Term:
					_, signed, _ := intInfo(s.arr.elem)
					if xv.S.K == KFP {
						return ex.branch(ex.st.FBin(OFLt, xv, y.(*Term)))
					}
					if signed {
						return ex.branch(ex.st.Bin(OSLt, xv, y.(*Term)))
					}
					return ex.branch(ex.st.Bin(OULt, xv, y.(*Term)))
				}
				ex.unsupported("slices.Sort on %T", x)
				return false
			})
			return nil
		},
		"(*sync.Mutex).Lock": func(ex *Exec, fn *ssa.Function, a []Value) Value {
			l := a[0].(*Loc)
			if ex.locks[l] {
				ex.end("panic", "%s:deadlock: recursive lock", ex.siteName())
			}
			ex.locks[l] = true
			return nil
		},
		"(*sync.Mutex).Unlock": func(ex *Exec, fn *ssa.Function, a []Value) Value {
			l := a[0].(*Loc)
			delete(ex.locks, l)
			return nil
		},
		"(*sync.RWMutex).Lock": func(ex *Exec, fn *ssa.Function, a []Value) Value {
			ex.locks[a[0].(*Loc)] = true
			return nil
		},
		"(*sync.RWMutex).Unlock": func(ex *Exec, fn *ssa.Function, a []Value) Value {
			delete(ex.locks, a[0].(*Loc))
			return nil
		},
		"(*sync.RWMutex).RLock": func(ex *Exec, fn *ssa.Function, a []Value) Value {
			ex.rlocks[a[0].(*Loc)]++
			return nil
		},
		"(*sync.RWMutex).RUnlock": func(ex *Exec, fn *ssa.Function, a []Value) Value {
			ex.rlocks[a[0].(*Loc)]--
			return nil
		},
		"(*sync.Once).Do": func(ex *Exec, fn *ssa.Function, a []Value) Value {
			l := a[0].(*Loc)
			// use the first scalar field as the done flag
			flag := l.kids[0]
			for flag.agg {
				flag = flag.kids[0]
			}
			if t, ok := flag.v.(*Term); ok && t.Op == OConst && t.C != 0 {
				return nil
			}
			ex.locks[l] = true
			ex.callValue(a[1], nil)
			delete(ex.locks, l)
			t := flag.v.(*Term)
			ex.store(flag, ex.st.BV(t.S.W, 1))
			return nil
		},
		"strings.Join": func(ex *Exec, fn *ssa.Function, a []Value) Value {
			s := a[0].(SliceV)
			sep := a[1].(StringV)
			var res StringV
			for i := 0; i < s.len; i++ {
				if i > 0 {
					res = ex.strConcat(res, sep)
				}
				res = ex.strConcat(res, ex.load(ex.kid(s.arr, s.off+i)).(StringV))
			}
			return res
		},
		"strings.HasPrefix": func(ex *Exec, fn *ssa.Function, a []Value) Value {
			s, p := a[0].(StringV), a[1].(StringV)
			if s.Len() < p.Len() {
				return ex.st.False
			}
			sb := ex.strBytes(s)[:p.Len()]
			return ex.strEq(ex.mkString(sb), p)
		},
		// text/template cannot be encoded.  Contract stub for the writer harnesses: executing a template
		// writes some text to the destination in one Write call and returns that call's error.  The
		// text is TEMPLATE_<name> bytes of 'x' (harness parameter, default 24): only its length and
		// the propagation of the writer's error are meaningful, never its content.
		"(*text/template.Template).ExecuteTemplate": func(ex *Exec, fn *ssa.Function, a []Value) Value {
			return templateStub(ex, a[1], ex.argStr(a[2]))
		},
		"(*text/template.Template).Execute": func(ex *Exec, fn *ssa.Function, a []Value) Value {
			return templateStub(ex, a[1], "all")
		},
		"internal/bytealg.IndexByteString": func(ex *Exec, fn *ssa.Function, a []Value) Value {
			return ex.indexByte(ex.strBytes(a[0].(StringV)), a[1].(*Term))
		},
		"internal/bytealg.IndexByte": func(ex *Exec, fn *ssa.Function, a []Value) Value {
			return ex.indexByte(ex.byteSliceTerms(a[0]), a[1].(*Term))
		},
		"internal/stringslite.Clone": func(ex *Exec, fn *ssa.Function, a []Value) Value { return a[0] },
		"strings.Clone":              func(ex *Exec, fn *ssa.Function, a []Value) Value { return a[0] },
		"strings.HasSuffix": func(ex *Exec, fn *ssa.Function, a []Value) Value {
			s, p := a[0].(StringV), a[1].(StringV)
			if s.Len() < p.Len() {
				return ex.st.False
			}
			sb := ex.strBytes(s)[s.Len()-p.Len():]
			return ex.strEq(ex.mkString(sb), p)
		},
		"strconv.ParseInt": func(ex *Exec, fn *ssa.Function, a []Value) Value {
			if s, ok := a[0].(StringV); ok && !s.concrete() {
				// symbolic text: interpret the library's own code
				return ex.callBody(fn, a, nil)
			}
			v, err := strconv.ParseInt(ex.argStr(a[0]), int(ex.argInt(a[1])), int(ex.argInt(a[2])))
			return TupleV{ex.st.BVs(64, v), ex.nativeErr(err)}
		},
		"strconv.ParseUint": func(ex *Exec, fn *ssa.Function, a []Value) Value {
			if s, ok := a[0].(StringV); ok && !s.concrete() {
				// symbolic text: interpret the library's own code
				return ex.callBody(fn, a, nil)
			}
			v, err := strconv.ParseUint(ex.argStr(a[0]), int(ex.argInt(a[1])), int(ex.argInt(a[2])))
			return TupleV{ex.st.BV(64, v), ex.nativeErr(err)}
		},
		"strconv.Atoi": func(ex *Exec, fn *ssa.Function, a []Value) Value {
			if s, ok := a[0].(StringV); ok && !s.concrete() {
				if m, ok := ex.signedDecimalOf(s); ok {
					// the decimal text of a 64-bit value produced on this path reads back as that value
					return TupleV{m, IfaceV{}}
				}
				// symbolic text: interpret the library's own code
				return ex.callBody(fn, a, nil)
			}
			v, err := strconv.Atoi(ex.argStr(a[0]))
			return TupleV{ex.st.BVs(64, int64(v)), ex.nativeErr(err)}
		},
		"strconv.ParseFloat": func(ex *Exec, fn *ssa.Function, a []Value) Value {
			v, err := strconv.ParseFloat(ex.argStr(a[0]), int(ex.argInt(a[1])))
			return TupleV{ex.st.FP(v), ex.nativeErr(err)}
		},
		"regexp.MustCompile": func(ex *Exec, fn *ssa.Function, a []Value) Value {
			re := regexp.MustCompile(ex.argStr(a[0]))
			l := ex.newLoc(types.NewStruct(nil, nil))
			ex.w.regexps.Store(l, re)
			ex.regexps[l] = re
			return l
		},
		"(*regexp.Regexp).FindSubmatch": func(ex *Exec, fn *ssa.Function, a []Value) Value {
			re := ex.regexps[a[0].(*Loc)]
			if re == nil {
				ex.unsupported("regexp object of unknown origin")
			}
			raw, ok := ex.nativeArg(a[1])
			if !ok {
				ex.unsupported("regexp match on symbolic bytes")
			}
			mm := re.FindSubmatch(raw.([]byte))
			if mm == nil {
				return SliceV{}
			}
			bt := types.NewSlice(types.Typ[types.Uint8])
			arr := ex.newArray(bt, len(mm))
			for k, m := range mm {
				bs := make([]*Term, len(m))
				for j, c := range m {
					bs[j] = ex.st.BV(8, uint64(c))
				}
				ex.kid(arr, k).v = ex.newByteSlice(bs)
			}
			return SliceV{arr: arr, len: len(mm), cap: len(mm)}
		},
		// parseNumber hands the token to strconv/regexp, which cannot be encoded: on symbolic bytes it is
		// an uninterpreted function of the token (same bytes => same answer); concrete tokens run the real code.
		"seehuhn.de/go/postscript.parseNumber": func(ex *Exec, fn *ssa.Function, a []Value) Value {
			bs := ex.byteSliceTerms(a[0])
			conc := true
			key := ""
			for _, b := range bs {
				if b.Op != OConst {
					conc = false
				}
				key += fmt.Sprintf("_%d", b.ID)
			}
			if conc {
				return ex.callBody(fn, a, nil)
			}
			// optional concrete sign, decimal digits, at most one concrete decimal point: the
			// real code (ParseInt from source; ParseFloat by its contract on this shape)
			digits := len(bs) > 0 && len(bs) <= 17 && ex.spec == 0
			nd, points := 0, 0
			for i, b := range bs {
				if r := ex.rangeOf(b); r.uOK && r.ulo >= '0' && r.uhi <= '9' {
					nd++
					continue
				}
				if b.Op == OConst && i == 0 && (b.C == '+' || b.C == '-') {
					continue
				}
				if b.Op == OConst && b.C == '.' && points == 0 {
					points++
					continue
				}
				digits = false
			}
			if nd == 0 {
				digits = false
			}
			if digits {
				// decimal digits only (by the path condition): the real code, whose first step
				// (strconv.ParseInt, interpreted from its source) succeeds on such tokens
				return ex.callBody(fn, a, nil)
			}
			ex.w.note("stub: parseNumber on symbolic token bytes modelled as an uninterpreted function")
			isNum := ex.st.Var("parseNumber.isnum"+key, SBool)
			val := ex.st.Var("parseNumber.value"+key, SBV(64))
			ex.inputs = append(ex.inputs, isNum, val)
			if ex.branch(isNum) {
				it := fn.Pkg.Type("Integer").Type()
				return TupleV{IfaceV{t: it, v: val}, IfaceV{}}
			}
			return TupleV{IfaceV{}, ex.errorValue("not a number")}
		},
		"fmt.Fprintf": func(ex *Exec, fn *ssa.Function, a []Value) Value {
			s := ex.sprintf(a[1], a[2])
			return ex.writeTo(a[0], ex.newByteSlice(ex.strBytes(s)))
		},
		"fmt.Fprint": func(ex *Exec, fn *ssa.Function, a []Value) Value {
			s := intrinsics["fmt.Sprint"](ex, fn, a[1:]).(StringV)
			return ex.writeTo(a[0], ex.newByteSlice(ex.strBytes(s)))
		},
		"io.WriteString": func(ex *Exec, fn *ssa.Function, a []Value) Value {
			return ex.writeTo(a[0], ex.newByteSlice(ex.strBytes(a[1].(StringV))))
		},
		"strings.Split": func(ex *Exec, fn *ssa.Function, a []Value) Value {
			s, sep := a[0].(StringV), a[1].(StringV)
			if s.concrete() && sep.concrete() {
				return ex.stringSlice(strings.Split(s.str(), sep.str()))
			}
			if !sep.concrete() || sep.Len() != 1 {
				ex.unsupported("strings.Split with a symbolic or multi-byte separator")
			}
			sc := ex.st.BV(8, uint64(sep.str()[0]))
			var parts []StringV
			var cur []*Term
			for _, b := range ex.strBytes(s) {
				if ex.branch(ex.st.Eq(b, sc)) {
					parts = append(parts, ex.mkString(cur))
					cur = nil
				} else {
					cur = append(cur, b)
				}
			}
			parts = append(parts, ex.mkString(cur))
			arr := ex.newArray(types.Typ[types.String], len(parts))
			for k, p := range parts {
				ex.kid(arr, k).v = p
			}
			return SliceV{arr: arr, len: len(parts), cap: len(parts)}
		},
		"strings.SplitN": func(ex *Exec, fn *ssa.Function, a []Value) Value {
			return ex.stringSlice(strings.SplitN(ex.argStr(a[0]), ex.argStr(a[1]), int(ex.argInt(a[2]))))
		},
		"strings.Fields": func(ex *Exec, fn *ssa.Function, a []Value) Value {
			return ex.stringSlice(strings.Fields(ex.argStr(a[0])))
		},
		"strings.TrimSpace": func(ex *Exec, fn *ssa.Function, a []Value) Value {
			return StringV{s: strings.TrimSpace(ex.argStr(a[0]))}
		},
		"strings.IndexByte": func(ex *Exec, fn *ssa.Function, a []Value) Value {
			s := a[0].(StringV)
			c := a[1].(*Term)
			if s.concrete() && c.Op == OConst {
				return ex.st.BVs(64, int64(strings.IndexByte(s.str(), byte(c.C))))
			}
			bs := ex.strBytes(s)
			for k, b := range bs {
				if ex.branch(ex.st.Eq(b, c)) {
					return ex.st.BVs(64, int64(k))
				}
			}
			return ex.st.BVs(64, -1)
		},
		"strconv.FormatFloat": func(ex *Exec, fn *ssa.Function, a []Value) Value {
			f := a[0].(*Term)
			if f.Op != OConst {
				ex.unsupported("strconv.FormatFloat of a symbolic value")
			}
			return StringV{s: strconv.FormatFloat(f.F(), byte(ex.argInt(a[1])), int(ex.argInt(a[2])), int(ex.argInt(a[3])))}
		},
		"strconv.FormatInt": func(ex *Exec, fn *ssa.Function, a []Value) Value {
			return StringV{s: strconv.FormatInt(ex.argInt(a[0]), int(ex.argInt(a[1])))}
		},
		"(embed.FS).Open": func(ex *Exec, fn *ssa.Function, a []Value) Value {
			name := ex.argStr(a[1])
			dir := ""
			for f := ex.frame; f != nil; f = f.caller {
				if f.fn.Pkg != nil && strings.HasPrefix(f.fn.Pkg.Pkg.Path(), "seehuhn.de/go/postscript") {
					dir = repoDir + strings.TrimPrefix(f.fn.Pkg.Pkg.Path(), "seehuhn.de/go/postscript")
					break
				}
			}
			raw, err := os.ReadFile(dir + "/" + name)
			if err != nil {
				return TupleV{IfaceV{}, ex.errorValue("open " + name + ": file does not exist")}
			}
			return TupleV{IfaceV{t: vpFileType, v: Opaque{desc: string(raw)}}, IfaceV{}}
		},
		"bufio.NewScanner": func(ex *Exec, fn *ssa.Function, a []Value) Value {
			iv := ex.ifaceOf(a[0])
			if bs, ok := ex.readerBytes(iv); ok {
				// a harness reader: line scanning over its (possibly symbolic) bytes; lines are
				// at most bufio.MaxScanTokenSize long here, so the delivery schedule is immaterial
				l := ex.newLoc(types.NewStruct(nil, nil))
				lines := ex.symLines(bs)
				if lines == nil {
					lines = [][]*Term{}
				}
				ex.lineScanners[l] = &lineScanner{sym: lines, pos: -1}
				return l
			}
			op, ok := iv.v.(Opaque)
			if !ok || iv.t != vpFileType {
				ex.unsupported("bufio.Scanner over a reader that is not an embedded file")
			}
			l := ex.newLoc(types.NewStruct(nil, nil))
			lines := strings.Split(op.desc, "\n")
			if len(lines) > 0 && lines[len(lines)-1] == "" {
				lines = lines[:len(lines)-1]
			}
			for k := range lines {
				lines[k] = strings.TrimSuffix(lines[k], "\r")
			}
			ex.lineScanners[l] = &lineScanner{lines: lines, pos: -1}
			return l
		},
		"(*bufio.Scanner).Scan": func(ex *Exec, fn *ssa.Function, a []Value) Value {
			s := ex.lineScanners[a[0].(*Loc)]
			if s == nil {
				ex.unsupported("bufio.Scanner of unknown origin")
			}
			s.pos++
			return ex.st.Bool(s.pos < s.n())
		},
		"(*bufio.Scanner).Text": func(ex *Exec, fn *ssa.Function, a []Value) Value {
			s := ex.lineScanners[a[0].(*Loc)]
			if s == nil || s.pos < 0 || s.pos >= s.n() {
				return StringV{}
			}
			if s.sym != nil {
				return ex.mkString(s.sym[s.pos])
			}
			return StringV{s: s.lines[s.pos]}
		},
		"(*bufio.Scanner).Err":         func(ex *Exec, fn *ssa.Function, a []Value) Value { return IfaceV{} },
		"(*strings.Builder).copyCheck": func(ex *Exec, fn *ssa.Function, a []Value) Value { return nil },
		"(*strings.Builder).String": func(ex *Exec, fn *ssa.Function, a []Value) Value {
			l := a[0].(*Loc)
			// struct { addr *Builder; buf []byte }
			buf, ok := ex.load(l.kids[len(l.kids)-1]).(SliceV)
			if !ok {
				ex.unsupported("strings.Builder layout")
			}
			bs := make([]*Term, buf.len)
			for k := 0; k < buf.len; k++ {
				bs[k] = ex.load(ex.kid(buf.arr, buf.off+k)).(*Term)
			}
			return ex.mkString(bs)
		},
		// In the RELAX encoding integers derived from floats are real terms; their byte encoding is
		// decided for all int32 in C20 K1, so appendInt becomes a recording stub there: it appends
		// the marker byte 0 (never produced by the real encoder) and remembers the value.
		"seehuhn.de/go/postscript/type1.appendInt": func(ex *Exec, fn *ssa.Function, a []Value) Value {
			if !ex.isReal(a[1]) {
				// a merged loop counter (ite tree of constants) next to RELAX values is recorded, too
				t, isT := a[1].(*Term)
				if isT && t.Op == OIte && len(ex.realRange) > 0 {
					if r, ok := ex.bvTreeToReal(t); ok {
						if ex.spec > 0 {
							abortMerge()
						}
						ex.emitted = append(ex.emitted, r)
						return ex.doAppend(a[0].(SliceV), ex.newByteSlice([]*Term{ex.st.BV(8, 0)}), nil)
					}
				}
				return ex.callBody(fn, a, nil)
			}
			if ex.spec > 0 {
				abortMerge()
			}
			ex.w.note("stub: appendInt of a real-valued (RELAX) integer recorded instead of encoded")
			ex.emitted = append(ex.emitted, a[1].(*Term))
			return ex.doAppend(a[0].(SliceV), ex.newByteSlice([]*Term{ex.st.BV(8, 0)}), nil)
		},
		// K3 (no drift) uses appendNumber through its K2 contract: for a real-valued (RELAX) argument and
		// with the harness parameter CONTRACT_APPENDNUMBER=1 it returns an arbitrary value within
		// 1/214+1e-9 of the request, which is also what the decoder will reconstruct, and records it.
		"seehuhn.de/go/postscript/type1.appendNumber": func(ex *Exec, fn *ssa.Function, a []Value) Value {
			if !ex.isReal(a[1]) || params["CONTRACT_APPENDNUMBER"] != 1 {
				return ex.callBody(fn, a, nil)
			}
			if ex.spec > 0 {
				abortMerge() // the record below must not be made speculatively
			}
			ex.w.note("stub: appendNumber replaced by its contract |v - x| <= 1/214 + 1e-9 (CONTRACT_APPENDNUMBER=1)")
			x := a[1].(*Term)
			st := ex.st
			ex.symKeys++
			v := st.RVar(fmt.Sprintf("an.%d", ex.symKeys), false)
			b := st.RConst(1.0/214 + 1e-9)
			ex.assert(st.And(st.rbin(ORLe, st.rbin(ORSub, x, b), v), st.rbin(ORLe, v, st.rbin(ORAdd, x, b))))
			r := ex.rng(x)
			ex.realRange[v.ID] = rint{r.lo - 0.01, r.hi + 0.01}
			ex.emitted = append(ex.emitted, v)
			buf := ex.doAppend(a[0].(SliceV), ex.newByteSlice([]*Term{st.BV(8, 0)}), nil)
			return TupleV{buf, v}
		},
		"maps.Clone": func(ex *Exec, fn *ssa.Function, a []Value) Value {
			m, _ := a[0].(*MapObj)
			if m == nil {
				return (*MapObj)(nil)
			}
			ex.nextID++
			nm := &MapObj{id: ex.nextID, keyT: m.keyT, valT: m.valT, m: make(map[string]*mapEntry, len(m.m))}
			for k, e := range m.m {
				nm.m[k] = &mapEntry{key: e.key, val: e.val}
			}
			return nm
		},
		"time.Now": func(ex *Exec, fn *ssa.Function, a []Value) Value {
			ex.w.note("nondeterminism source reached: time.Now")
			ex.nondet++
			return ex.zero(fn.Signature.Results().At(0).Type())
		},
	}
}

// insertionSort sorts by repeatedly calling less on the current contents (stable).
func (ex *Exec) insertionSort(s SliceV, less func(i, j int) bool) {
	for i := 1; i < s.len; i++ {
		for j := i; j > 0; j-- {
			if !less(j, j-1) {
				break
			}
			a := ex.load(ex.kid(s.arr, s.off+j))
			b := ex.load(ex.kid(s.arr, s.off+j-1))
			ex.store(ex.kid(s.arr, s.off+j), b)
			ex.store(ex.kid(s.arr, s.off+j-1), a)
		}
	}
}

func init() {
	intrinsics["golang.org/x/exp/slices.Sort"] = intrinsics["slices.Sort"]
}

func lookupIntrinsic(fn *ssa.Function) intrinsicFn {
	name := fn.Name()
	if strings.HasPrefix(name, "vp") && fn.Signature.Recv() == nil {
		if h, ok := vpIntrinsics[name]; ok {
			if name == "vpParam" || name == "vpSymbolic" || name == "vpSameLazy" || name == "vpSameRef" || name == "vpFileLines" {
				return h
			}
			// harness primitives have engine-side effects: never inside a speculative arm
			return func(ex *Exec, fn *ssa.Function, a []Value) Value {
				if ex.spec > 0 {
					abortMerge()
				}
				return h(ex, fn, a)
			}
		}
	}
	if h, ok := intrinsics[fn.String()]; ok {
		return h
	}
	if o := fn.Origin(); o != nil {
		if h, ok := intrinsics[o.String()]; ok {
			return h
		}
	}
	return nil
}

// indexByte is bytealg.IndexByte(String): the first position of c, deciding per byte.
func (ex *Exec) indexByte(bs []*Term, c *Term) Value {
	for k, b := range bs {
		if ex.branch(ex.st.Eq(b, c)) {
			return ex.st.BVs(64, int64(k))
		}
	}
	return ex.st.BVs(64, -1)
}

func templateStub(ex *Exec, w Value, name string) Value {
	n := 24
	if v, ok := params["TEMPLATE_"+name]; ok {
		n = v
	}
	ex.w.note("stub: text/template execution replaced by a contract (writes TEMPLATE_<name> placeholder bytes in one Write call, returns its error)")
	bs := make([]*Term, n)
	for i := range bs {
		bs[i] = ex.st.BV(8, 'x')
	}
	r := ex.writeTo(w, ex.newByteSlice(bs))
	if tv, ok := r.(TupleV); ok && len(tv) == 2 {
		return tv[1]
	}
	ex.unsupported("Write method with an unexpected result shape")
	return nil
}

package main

import (
	"fmt"
	"go/types"
	"sort"
	"unicode/utf8"

	"golang.org/x/tools/go/ssa"
)

var sizes = types.SizesFor("gc", "amd64")

func (ex *Exec) idx64(fr *Frame, v ssa.Value) *Term {
	t := ex.term(fr, v)
	w, signed, ok := intInfo(v.Type())
	if !ok {
		w, signed = t.S.W, true
	}
	if w == 64 {
		return t
	}
	if signed {
		return ex.st.SExt(t, 64)
	}
	return ex.st.ZExt(t, 64)
}

// boundsCheck reports idx outside [0,n) and continues under the in-range assumption.
func (ex *Exec) boundsCheck(idx *Term, n int, kind string) {
	st := ex.st
	bad := st.Or(st.Bin(OSLt, idx, st.BV(64, 0)), st.Bin(OSLe, st.BVs(64, int64(n)), idx))
	ex.checkPanic(kind, bad, fmt.Sprintf("index out of range [..] with length %d", n))
}

func (ex *Exec) indexAddr(fr *Frame, in *ssa.IndexAddr) Value {
	x := ex.get(fr, in.X)
	idx := ex.idx64(fr, in.Index)
	var base *Loc
	off, n := 0, 0
	switch xv := x.(type) {
	case SliceV:
		base, off, n = xv.arr, xv.off, xv.len
	case *Loc:
		if xv == nil {
			ex.end("panic", "%s:nil-deref: index of nil array pointer", ex.siteName())
		}
		base, n = xv, len(xv.kids)
	default:
		ex.unsupported("IndexAddr on %T", x)
	}
	ex.boundsCheck(idx, n, "index")
	if idx.Op == OConst {
		return ex.kid(base, off+int(idx.I()))
	}
	if n == 1 {
		return ex.kid(base, off)
	}
	return &SymPtr{base: base, off: off, n: n, idx: idx}
}

func (ex *Exec) index(fr *Frame, in *ssa.Index) Value {
	x := ex.get(fr, in.X)
	idx := ex.idx64(fr, in.Index)
	switch xv := x.(type) {
	case ArrayV:
		ex.boundsCheck(idx, len(xv.e), "index")
		if idx.Op == OConst {
			return xv.e[idx.I()]
		}
		return ex.selectValue(idx, xv.e)
	case StringV:
		return ex.strIndex(xv, idx)
	}
	ex.unsupported("Index on %T", x)
	return nil
}

// selectValue builds an ite chain over scalar elements, or forks for other kinds.
func (ex *Exec) selectValue(idx *Term, elems []Value) Value {
	allT := true
	for _, e := range elems {
		if _, ok := e.(*Term); !ok {
			allT = false
			break
		}
	}
	if !allT || len(elems) == 0 {
		i := ex.concretize(idx, "index")
		return elems[i]
	}
	res := elems[len(elems)-1].(*Term)
	for i := len(elems) - 2; i >= 0; i-- {
		res = ex.st.Ite(ex.st.Eq(idx, ex.st.BV(idx.S.W, uint64(i))), elems[i].(*Term), res)
	}
	return res
}

func (ex *Exec) strIndex(s StringV, idx *Term) Value {
	n := s.Len()
	ex.boundsCheck(idx, n, "index")
	bs := ex.strBytes(s)
	if idx.Op == OConst {
		return bs[idx.I()]
	}
	vals := make([]Value, n)
	for i := range bs {
		vals[i] = bs[i]
	}
	return ex.selectValue(idx, vals)
}

func (ex *Exec) lookup(fr *Frame, in *ssa.Lookup) Value {
	x := ex.get(fr, in.X)
	switch xv := x.(type) {
	case StringV:
		return ex.strIndex(xv, ex.idx64(fr, in.Index))
	case *MapObj:
		k := ex.get(fr, in.Index)
		var val Value
		found := false
		if xv != nil {
			if ks, ok := ex.mapFind(xv, k); ok {
				val = xv.m[ks].val
				found = true
			}
		}
		if !found {
			mt := in.X.Type().Underlying().(*types.Map)
			val = ex.zero(mt.Elem())
		}
		if in.CommaOk {
			return TupleV{val, ex.st.Bool(found)}
		}
		return val
	}
	ex.unsupported("Lookup on %T", x)
	return nil
}

// mapFind locates the entry for k, forking over candidates when k or stored keys are symbolic.
func (ex *Exec) mapFind(m *MapObj, k Value) (string, bool) {
	if m.tag != 0 && !ex.initing && len(ex.locks) == 0 {
		ex.unlockedReads[m] = true
	}
	if lz, ok := k.(*LazyV); ok {
		k = ex.force(lz)
	}
	ks, conc := ex.keyString(k)
	if conc {
		if _, ok := m.m[ks]; ok {
			return ks, true
		}
		// symbolic stored keys may still match
		for _, sk := range m.sortedKeys() {
			if len(sk) > 4 && sk[:4] == "sym:" {
				if ex.branch(ex.valueEq(k, m.m[sk].key)) {
					return sk, true
				}
			}
		}
		return "", false
	}
	if kt, ok := k.(*Term); ok && kt.S.K == KBV && len(m.m) > 8 {
		if sk, found, handled := ex.mapFindScalar(m, kt); handled {
			return sk, found
		}
	}
	for _, sk := range m.sortedKeys() {
		eq := ex.valueEq(k, m.m[sk].key)
		if eq.Op == OConst && eq.C == 0 {
			continue
		}
		if ex.branch(eq) {
			return sk, true
		}
	}
	return "", false
}

const noKeySentinel = int64(-0x7eadbeefcafe1234)

// mapFindScalar looks a symbolic integer key up in a map with concrete integer keys: the
// solver enumerates the keys the symbol can equal (one query per feasible key) instead of
// branching on every entry.
func (ex *Exec) mapFindScalar(m *MapObj, k *Term) (string, bool, bool) {
	st := ex.st
	byVal := map[int64]string{}
	var any *Term = st.False
	for _, sk := range m.sortedKeys() {
		kt, ok := m.m[sk].key.(*Term)
		if !ok || kt.Op != OConst || kt.S != k.S {
			return "", false, false
		}
		byVal[kt.I()] = sk
		any = st.Or(any, st.Eq(k, kt))
	}
	d := ex.memo(func() int64 {
		var vals []int64
		excl := []*Term{any}
		for {
			if ex.check(excl...) != Sat {
				break
			}
			v, ok := ex.sol.Value(k)
			if !ok {
				break
			}
			sv := sx(v, k.S.W)
			if _, isKey := byVal[sv]; !isKey {
				break
			}
			vals = append(vals, sv)
			excl = append(excl, st.Not(st.Eq(k, st.BV(k.S.W, v))))
		}
		none := ex.check(st.Not(any)) != Unsat
		var alts []int64
		alts = append(alts, vals...)
		if none {
			alts = append(alts, noKeySentinel)
		}
		if len(alts) == 0 {
			ex.end("infeasible", "map lookup: no feasible case")
		}
		for i := len(alts) - 1; i >= 1; i-- {
			ex.enqueueAlt(alts[i])
		}
		return alts[0]
	})
	if d == noKeySentinel {
		ex.assert(st.Not(any))
		return "", false, true
	}
	ex.assert(st.Eq(k, st.BVs(k.S.W, d)))
	return byVal[d], true, true
}

// mapKey returns the storage key string to use for k (existing entry or a fresh one).
func (ex *Exec) mapKey(m *MapObj, k Value) string {
	if ks, ok := ex.mapFind(m, k); ok {
		return ks
	}
	if ks, conc := ex.keyString(k); conc {
		return ks
	}
	ex.symKeys++
	return fmt.Sprintf("sym:%06d", ex.symKeys)
}

func (ex *Exec) slice(fr *Frame, in *ssa.Slice) Value {
	x := ex.get(fr, in.X)
	st := ex.st
	var lo, hi, mx *Term
	if in.Low != nil {
		lo = ex.idx64(fr, in.Low)
	} else {
		lo = st.BV(64, 0)
	}
	if in.High != nil {
		hi = ex.idx64(fr, in.High)
	}
	if in.Max != nil {
		mx = ex.idx64(fr, in.Max)
	}
	var base *Loc
	off, ln, cp := 0, 0, 0
	isStr := false
	var sv StringV
	switch xv := x.(type) {
	case SliceV:
		base, off, ln, cp = xv.arr, xv.off, xv.len, xv.cap
	case *Loc:
		if xv == nil {
			ex.end("panic", "%s:nil-deref: slice of nil array pointer", ex.siteName())
		}
		base, ln, cp = xv, len(xv.kids), len(xv.kids)
	case StringV:
		isStr = true
		sv = xv
		ln, cp = xv.Len(), xv.Len()
	default:
		ex.unsupported("Slice on %T", x)
	}
	if hi == nil {
		hi = st.BVs(64, int64(ln))
	}
	limit := cp
	if mx != nil {
		limit = -1
	}
	// 0 <= lo <= hi <= (max <=) cap
	bad := st.Or(st.Bin(OSLt, lo, st.BV(64, 0)), st.Bin(OSLt, hi, lo))
	if mx != nil {
		bad = st.Or(bad, st.Or(st.Bin(OSLt, mx, hi), st.Bin(OSLt, st.BVs(64, int64(cp)), mx)))
	} else {
		bad = st.Or(bad, st.Bin(OSLt, st.BVs(64, int64(limit)), hi))
	}
	ex.checkPanic("slice-bounds", bad, fmt.Sprintf("slice bounds out of range (cap %d)", cp))
	l := int(ex.concretize(lo, "slice-low"))
	h := int(ex.concretize(hi, "slice-high"))
	m := cp
	if mx != nil {
		m = int(ex.concretize(mx, "slice-max"))
	}
	if isStr {
		if sv.sym == nil {
			return StringV{s: sv.s[l:h]}
		}
		return ex.mkString(sv.sym[l:h])
	}
	if base == nil {
		// slicing a nil slice [0:0]
		return SliceV{}
	}
	return SliceV{arr: base, off: off + l, len: h - l, cap: m - l}
}

func (ex *Exec) makeSlice(fr *Frame, in *ssa.MakeSlice) Value {
	st := ex.st
	ln := ex.idx64(fr, in.Len)
	cp := ex.idx64(fr, in.Cap)
	elem := in.Type().Underlying().(*types.Slice).Elem()
	esz := sizes.Sizeof(elem)
	if esz == 0 {
		esz = 1
	}
	const maxAlloc = int64(1) << 47
	bad := st.Or(st.Bin(OSLt, ln, st.BV(64, 0)), st.Bin(OSLt, st.BVs(64, maxAlloc/esz), ln))
	bad = st.Or(bad, st.Or(st.Bin(OSLt, cp, ln), st.Bin(OSLt, st.BVs(64, maxAlloc/esz), cp)))
	ex.checkPanic("makeslice", bad, "makeslice: len out of range")
	ex.allocCheck(cp, esz)
	l := int(ex.concretize(ln, "make-len"))
	c := int(ex.concretize(cp, "make-cap"))
	arr := ex.newArray(elem, c)
	return SliceV{arr: arr, len: l, cap: c}
}

// allocCheck is the allocation monitor: n elements of esz bytes.
func (ex *Exec) allocCheck(n *Term, esz int64) {
	if ex.allocLimit <= 0 {
		return
	}
	lim := ex.allocLimit / esz
	bad := ex.st.Bin(OSLt, ex.st.BVs(64, lim), n)
	if bad.Op == OConst && bad.C == 0 {
		return
	}
	site := ex.siteName() + ":alloc"
	ex.memo(func() int64 {
		if ex.check(bad) == Sat {
			ex.report("alloc", site, fmt.Sprintf("allocation above %d bytes", ex.allocLimit), bad)
			return 1
		}
		return 0
	})
	if bad.Op == OConst {
		ex.end("panic", "%s: allocation above limit", site)
	}
	ex.assert(ex.st.Not(bad))
}

// ---------------- range ----------------

func (ex *Exec) rangeStart(fr *Frame, in *ssa.Range) Value {
	x := ex.get(fr, in.X)
	switch xv := x.(type) {
	case StringV:
		return &RangeIter{str: xv, isS: true}
	case *MapObj:
		it := &RangeIter{m: xv}
		if xv != nil {
			it.keys = xv.sortedKeys()
			if ex.mapOrder && len(it.keys) >= 2 && len(it.keys) <= 4 {
				// arbitrary iteration order: fork over permutations
				n := len(it.keys)
				perm := make([]string, 0, n)
				rest := append([]string{}, it.keys...)
				for len(rest) > 0 {
					i := 0
					if len(rest) > 1 {
						i = ex.choose("", len(rest))
					}
					perm = append(perm, rest[i])
					rest = append(rest[:i], rest[i+1:]...)
				}
				it.keys = perm
			} else if ex.mapOrder && len(it.keys) > 4 && len(it.keys) <= 16 {
				// larger maps: 2n of the n! orders - every rotation of the sorted and of the reversed
				// key list, so that every pair of keys is seen in both relative orders
				n := len(it.keys)
				base := append([]string{}, it.keys...)
				if ex.choose("", 2) == 1 {
					for i, j := 0, n-1; i < j; i, j = i+1, j-1 {
						base[i], base[j] = base[j], base[i]
					}
				}
				r := ex.choose("", n)
				it.keys = append(append([]string{}, base[r:]...), base[:r]...)
			}
		}
		return it
	}
	ex.unsupported("Range over %T", x)
	return nil
}

func (ex *Exec) rangeNext(fr *Frame, in *ssa.Next) Value {
	it := ex.get(fr, in.Iter).(*RangeIter)
	st := ex.st
	if it.isS {
		n := it.str.Len()
		if it.pos >= n {
			return TupleV{st.False, st.BV(64, 0), st.BV(32, 0)}
		}
		if it.str.sym == nil {
			r, w := utf8.DecodeRuneInString(it.str.s[it.pos:])
			p := it.pos
			it.pos += w
			return TupleV{st.True, st.BVs(64, int64(p)), st.BVs(32, int64(r))}
		}
		b := it.str.sym[it.pos]
		if b.Op == OConst && b.C >= 0x80 {
			// concrete tail decode
			raw := make([]byte, 0, 4)
			for k := it.pos; k < n && k < it.pos+4; k++ {
				if it.str.sym[k].Op != OConst {
					ex.unsupported("range over string with symbolic non-ASCII continuation")
				}
				raw = append(raw, byte(it.str.sym[k].C))
			}
			r, w := utf8.DecodeRune(raw)
			p := it.pos
			it.pos += w
			return TupleV{st.True, st.BVs(64, int64(p)), st.BVs(32, int64(r))}
		}
		if !ex.branch(st.Bin(OULt, b, st.BV(8, 0x80))) {
			// over-approximation of UTF-8 decoding: some rune >= 0x80 (or U+FFFD) of width 1..4
			ex.w.note("stub: UTF-8 decoding of symbolic non-ASCII bytes over-approximated (arbitrary rune >= 0x80, width 1..4)")
			ex.symKeys++
			r := ex.st.Var(fmt.Sprintf("utf8.rune.%d", ex.symKeys), SBV(32))
			ex.inputs = append(ex.inputs, r)
			ex.assert(st.And(st.Bin(OSLe, st.BV(32, 0x80), r), st.Bin(OSLe, r, st.BV(32, 0x10FFFF))))
			maxw := n - it.pos
			if maxw > 4 {
				maxw = 4
			}
			wd := 1 + ex.choose("", maxw)
			p := it.pos
			it.pos += wd
			return TupleV{st.True, st.BVs(64, int64(p)), r}
		}
		p := it.pos
		it.pos++
		return TupleV{st.True, st.BVs(64, int64(p)), st.ZExt(b, 32)}
	}
	if it.m == nil {
		return TupleV{st.False, nil, nil}
	}
	for it.pos < len(it.keys) {
		k := it.keys[it.pos]
		it.pos++
		e, ok := it.m.m[k]
		if !ok {
			continue // deleted during iteration
		}
		return TupleV{st.True, e.key, e.val}
	}
	mt := it.m
	return TupleV{st.False, ex.zero(mt.keyT), ex.zero(mt.valT)}
}

// ---------------- builtins ----------------

func (ex *Exec) callBuiltin(name string, args []Value, c *ssa.CallCommon) Value {
	st := ex.st
	switch name {
	case "len":
		switch x := args[0].(type) {
		case SliceV:
			return st.BVs(64, int64(x.len))
		case StringV:
			return st.BVs(64, int64(x.Len()))
		case *MapObj:
			if x == nil {
				return st.BV(64, 0)
			}
			return st.BVs(64, int64(len(x.m)))
		case ArrayV:
			return st.BVs(64, int64(len(x.e)))
		case *Loc:
			if x == nil {
				pt := c.Args[0].Type().Underlying().(*types.Pointer)
				return st.BVs(64, pt.Elem().Underlying().(*types.Array).Len())
			}
			return st.BVs(64, int64(len(x.kids)))
		}
	case "cap":
		switch x := args[0].(type) {
		case SliceV:
			return st.BVs(64, int64(x.cap))
		case ArrayV:
			return st.BVs(64, int64(len(x.e)))
		case *Loc:
			return st.BVs(64, int64(len(x.kids)))
		}
	case "append":
		return ex.doAppend(args[0].(SliceV), args[1], c)
	case "copy":
		dst := args[0].(SliceV)
		var n int
		switch src := args[1].(type) {
		case SliceV:
			n = dst.len
			if src.len < n {
				n = src.len
			}
			tmp := make([]Value, n)
			for i := 0; i < n; i++ {
				tmp[i] = ex.load(ex.kid(src.arr, src.off+i))
			}
			for i := 0; i < n; i++ {
				ex.store(ex.kid(dst.arr, dst.off+i), tmp[i])
			}
		case StringV:
			bs := ex.strBytes(src)
			n = dst.len
			if len(bs) < n {
				n = len(bs)
			}
			for i := 0; i < n; i++ {
				ex.store(ex.kid(dst.arr, dst.off+i), bs[i])
			}
		default:
			ex.unsupported("copy from %T", args[1])
		}
		return st.BVs(64, int64(n))
	case "delete":
		m, _ := args[0].(*MapObj)
		if m == nil {
			return nil
		}
		if ks, ok := ex.mapFind(m, args[1]); ok {
			ex.mapSet(m, ks, nil)
		}
		return nil
	case "print", "println":
		return nil
	case "recover":
		return IfaceV{}
	case "min", "max":
		r := args[0].(*Term)
		for _, a := range args[1:] {
			b := a.(*Term)
			var lt *Term
			if r.S.K == KFP {
				ex.unsupported("min/max on floats")
			}
			_, signed, _ := intInfo(c.Args[0].Type())
			if signed {
				lt = st.Bin(OSLt, b, r)
			} else {
				lt = st.Bin(OULt, b, r)
			}
			if name == "max" {
				lt = st.And(st.Not(lt), st.Not(st.Eq(b, r)))
			}
			r = st.Ite(lt, b, r)
		}
		return r
	case "clear":
		switch x := args[0].(type) {
		case *MapObj:
			if x != nil {
				for _, k := range x.sortedKeys() {
					ex.mapSet(x, k, nil)
				}
			}
			return nil
		case SliceV:
			if x.len > 0 {
				z := ex.zero(x.arr.elem)
				for i := 0; i < x.len; i++ {
					ex.store(ex.kid(x.arr, x.off+i), z)
				}
			}
			return nil
		}
	}
	ex.unsupported("builtin %s on %T", name, args[0])
	return nil
}

// Go 1.23 size classes (runtime/sizeclasses.go)
var sizeClasses = []int64{0, 8, 16, 24, 32, 48, 64, 80, 96, 112, 128, 144, 160, 176, 192, 208, 224, 240, 256, 288, 320, 352, 384, 416, 448, 480, 512, 576, 640, 704, 768, 896, 1024, 1152, 1280, 1408, 1536, 1792, 2048, 2304, 2688, 3072, 3200, 3456, 4096, 4864, 5376, 6144, 6528, 6784, 6912, 8192, 9472, 9728, 10240, 10880, 12288, 13568, 14336, 16384, 18432, 19072, 20480, 21760, 24576, 27264, 28672, 32768}

func roundupsize(size int64) int64 {
	if size <= 32768 {
		i := sort.Search(len(sizeClasses), func(i int) bool { return sizeClasses[i] >= size })
		return sizeClasses[i]
	}
	const page = 8192
	return (size + page - 1) / page * page
}

// growCap mirrors runtime.growslice's capacity computation.
func growCap(oldCap, newLen int, esz int64) int {
	newcap := oldCap
	doublecap := newcap + newcap
	if newLen > doublecap {
		newcap = newLen
	} else {
		const threshold = 256
		if oldCap < threshold {
			newcap = doublecap
		} else {
			for newcap < newLen {
				newcap += (newcap + 3*threshold) >> 2
			}
		}
	}
	if esz == 0 {
		return newcap
	}
	mem := roundupsize(int64(newcap) * esz)
	return int(mem / esz)
}

func (ex *Exec) doAppend(s SliceV, more Value, c *ssa.CallCommon) Value {
	var add []Value
	switch m := more.(type) {
	case SliceV:
		add = make([]Value, m.len)
		for i := 0; i < m.len; i++ {
			add[i] = ex.load(ex.kid(m.arr, m.off+i))
		}
	case StringV:
		for _, b := range ex.strBytes(m) {
			add = append(add, b)
		}
	default:
		ex.unsupported("append of %T", more)
	}
	if len(add) == 0 {
		return s
	}
	var elem types.Type
	if s.arr != nil {
		elem = s.arr.elem
	} else if c != nil {
		elem = c.Args[0].Type().Underlying().(*types.Slice).Elem()
	} else if m, ok := more.(SliceV); ok && m.arr != nil {
		elem = m.arr.elem
	} else {
		ex.unsupported("append: unknown element type")
	}
	n := s.len + len(add)
	if n <= s.cap {
		for i, v := range add {
			ex.store(ex.kid(s.arr, s.off+s.len+i), v)
		}
		return SliceV{arr: s.arr, off: s.off, len: n, cap: s.cap}
	}
	esz := sizes.Sizeof(elem)
	nc := growCap(s.cap, n, esz)
	if ex.allocLimit > 0 && int64(nc)*esz > ex.allocLimit {
		ex.memo(func() int64 {
			ex.report("alloc", ex.siteName()+":alloc", "append grows above allocation limit", nil)
			return 1
		})
		ex.end("panic", "append above allocation limit")
	}
	arr := ex.newArray(elem, nc)
	for i := 0; i < s.len; i++ {
		k := s.arr.kids[s.off+i]
		if k != nil {
			ex.kid(arr, i).copyFrom(ex, k)
		}
	}
	for i, v := range add {
		ex.store(ex.kid(arr, s.len+i), v)
	}
	return SliceV{arr: arr, off: 0, len: n, cap: nc}
}

// copyFrom initialises a fresh loc from another (no trail needed: dst is new).
func (l *Loc) copyFrom(ex *Exec, src *Loc) {
	if !src.agg {
		l.v = src.v
		return
	}
	for i, k := range src.kids {
		if k != nil {
			ex.kid(l, i).copyFrom(ex, k)
		}
	}
}

package main

import (
	"strconv"
	"strings"

	"golang.org/x/tools/go/ssa"
)

func (ex *Exec) choicesMatch(k KnownFinding) bool {
	for name, v := range k.Choices {
		if cv, ok := ex.choices[name]; !ok || cv != v {
			return false
		}
	}
	return true
}

// parseRegion parses a small SMT-LIB-like predicate over the harness input names.
func (ex *Exec) parseRegion(src string) (*Term, bool) {
	toks := tokenize(src)
	pos := 0
	ok := true
	st := ex.st
	var parse func(want int) *Term
	parse = func(want int) *Term {
		if pos >= len(toks) {
			ok = false
			return st.False
		}
		t := toks[pos]
		pos++
		switch {
		case t == "true":
			return st.True
		case t == "false":
			return st.False
		case strings.HasPrefix(t, "#x"):
			v, _ := strconv.ParseUint(t[2:], 16, 64)
			return st.BV(4*(len(t)-2), v)
		case strings.HasPrefix(t, "|choice:"):
			// the value of a vpChoose decision of this path (absent = -1)
			cv, found := ex.choices[strings.TrimPrefix(strings.Trim(t, "|"), "choice:")]
			if !found {
				cv = -1
			}
			return st.BVs(64, cv)
		case strings.HasPrefix(t, "|"):
			v, found := st.vars[strings.Trim(t, "|")]
			if !found {
				ok = false
				return st.False
			}
			return v
		case t == "(":
			op := toks[pos]
			pos++
			var args []*Term
			for pos < len(toks) && toks[pos] != ")" {
				w := 0
				if len(args) > 0 {
					w = args[0].S.W
				}
				args = append(args, parse(w))
			}
			pos++
			if !ok {
				return st.False
			}
			// integer literals adopt the width of their sibling
			for i, a := range args {
				if a.S.K == KBV && a.S.W == 0 {
					for _, b := range args {
						if b.S.K == KBV && b.S.W != 0 {
							args[i] = st.BVs(b.S.W, int64(a.C))
						}
					}
				}
			}
			switch op {
			case "and":
				r := st.True
				for _, a := range args {
					r = st.And(r, a)
				}
				return r
			case "or":
				r := st.False
				for _, a := range args {
					r = st.Or(r, a)
				}
				return r
			case "not":
				return st.Not(args[0])
			case "=":
				return st.Eq(args[0], args[1])
			case "bvslt":
				return st.Bin(OSLt, args[0], args[1])
			case "bvsle":
				return st.Bin(OSLe, args[0], args[1])
			case "bvsgt":
				return st.Bin(OSLt, args[1], args[0])
			case "bvsge":
				return st.Bin(OSLe, args[1], args[0])
			case "bvult":
				return st.Bin(OULt, args[0], args[1])
			case "bvule":
				return st.Bin(OULe, args[0], args[1])
			case "bvugt":
				return st.Bin(OULt, args[1], args[0])
			case "bvuge":
				return st.Bin(OULe, args[1], args[0])
			case "bvadd":
				return st.Bin(OAdd, args[0], args[1])
			case "bvsub":
				return st.Bin(OSub, args[0], args[1])
			}
			ok = false
			return st.False
		default:
			// decimal literal: width decided by sibling
			v, err := strconv.ParseInt(t, 10, 64)
			if err != nil {
				ok = false
				return st.False
			}
			return &Term{Op: OConst, S: Sort{KBV, 0}, C: uint64(v)}
		}
	}
	r := parse(0)
	if !ok || r.S.K != KBool {
		return nil, false
	}
	return r, true
}

// tryMerge is if-conversion (see merge.go); placeholder signature kept here for reference.
var _ = (*ssa.BasicBlock)(nil)

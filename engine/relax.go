package main

// RELAX numeric encoding: float64 values are real numbers with an explicit rounding slack per
// arithmetic operation,  |fl(e) - e| <= M*2^-53 + 2^-1074  where M bounds |e| (interval
// arithmetic from the stated input ranges).  math.Round yields an integer within 1/2; float->int
// truncation an integer within 1.  This over-approximates finite IEEE arithmetic, so an unsat
// verdict holds for the real code; it is never used to prove equalities of computed values.
// Integer-typed Go values that originate from such floats (int32(pf)) are carried as real terms
// as well; anything that would need their bits is unsupported.

import (
	"fmt"
	"go/token"
	"math"
	"math/big"
)

const KReal Kind = 3

var SReal = Sort{KReal, 0}

const (
	ORAdd Op = 100 + iota
	ORSub
	ORMul
	ORDiv
	ORNeg
	ORLt
	ORLe
	ORFromInt // argument: Int-sorted variable (declared as Int), result real
)

type rint struct{ lo, hi float64 }

func (r rint) mag() float64 { return math.Max(math.Abs(r.lo), math.Abs(r.hi)) }

func realLit(f float64) string {
	if f == math.Trunc(f) && math.Abs(f) < 1e15 {
		if f < 0 {
			return fmt.Sprintf("(- %d.0)", int64(-f))
		}
		return fmt.Sprintf("%d.0", int64(f))
	}
	r := new(big.Rat)
	r.SetFloat64(f)
	num, den := new(big.Int).Set(r.Num()), r.Denom()
	neg := num.Sign() < 0
	if neg {
		num.Neg(num)
	}
	s := fmt.Sprintf("(/ %s.0 %s.0)", num.String(), den.String())
	if neg {
		return "(- " + s + ")"
	}
	return s
}

func (st *Store) RConst(f float64) *Term {
	return st.mk(&Term{Op: OConst, S: SReal, C: math.Float64bits(f)})
}

func (st *Store) RVar(name string, isInt bool) *Term {
	if v, ok := st.vars[name]; ok {
		return v
	}
	t := &Term{Op: OVar, S: SReal, N: name}
	if isInt {
		t.P = 1 // declared as Int, referenced through to_real
	}
	v := st.mk(t)
	st.vars[name] = v
	return v
}

func (st *Store) rbin(op Op, a, b *Term) *Term {
	if a.Op == OConst && b.Op == OConst {
		x, y := a.F(), b.F()
		switch op {
		case ORAdd:
			return st.RConst(x + y)
		case ORSub:
			return st.RConst(x - y)
		case ORMul:
			return st.RConst(x * y)
		case ORLt:
			return st.Bool(x < y)
		case ORLe:
			return st.Bool(x <= y)
		}
	}
	s := SReal
	if op == ORLt || op == ORLe {
		s = SBool
		// comparisons with +-Inf constants
		if b.Op == OConst && math.IsInf(b.F(), 1) || a.Op == OConst && math.IsInf(a.F(), -1) {
			return st.True
		}
		if b.Op == OConst && math.IsInf(b.F(), -1) || a.Op == OConst && math.IsInf(a.F(), 1) {
			return st.False
		}
	}
	if op == ORDiv {
		// distribute a division over ite chains with the same guards (keeps it linear)
		if a.Op == OIte && b.Op == OIte && a.A[0] == b.A[0] {
			return st.Ite(a.A[0], st.rbin(ORDiv, a.A[1], b.A[1]), st.rbin(ORDiv, a.A[2], b.A[2]))
		}
		if b.Op == OConst && a.Op == OIte {
			return st.Ite(a.A[0], st.rbin(ORDiv, a.A[1], b), st.rbin(ORDiv, a.A[2], b))
		}
	}
	return st.mk(&Term{Op: op, S: s, A: []*Term{a, b}})
}

func relaxBody(t *Term) (string, bool) {
	r := func(i int) string { return t.A[i].ref() }
	switch t.Op {
	case ORAdd:
		return fmt.Sprintf("(+ %s %s)", r(0), r(1)), true
	case ORSub:
		return fmt.Sprintf("(- %s %s)", r(0), r(1)), true
	case ORMul:
		return fmt.Sprintf("(* %s %s)", r(0), r(1)), true
	case ORDiv:
		return fmt.Sprintf("(/ %s %s)", r(0), r(1)), true
	case ORNeg:
		return fmt.Sprintf("(- %s)", r(0)), true
	case ORLt:
		return fmt.Sprintf("(< %s %s)", r(0), r(1)), true
	case ORLe:
		return fmt.Sprintf("(<= %s %s)", r(0), r(1)), true
	}
	return "", false
}

// ---------------- executor side ----------------

func (ex *Exec) isReal(v Value) bool {
	t, ok := v.(*Term)
	return ok && t.S.K == KReal
}

// toReal converts a float constant or real term to a real term.
func (ex *Exec) toReal(t *Term) *Term {
	switch t.S.K {
	case KReal:
		return t
	case KFP:
		if t.Op == OConst {
			return ex.st.RConst(t.F())
		}
	case KBV:
		if r, ok := ex.bvTreeToReal(t); ok {
			return r
		}
	}
	if t.S.K == KFP && (t.Op == OFFromS || t.Op == OFFromU) {
		if r, ok := ex.bvTreeToReal(t.A[0]); ok {
			return r
		}
	}
	ex.unsupported("RELAX: mixing a symbolic %v term with real arithmetic", t.S)
	return nil
}

func (ex *Exec) rng(t *Term) rint {
	if t.Op == OConst {
		f := t.F()
		return rint{f, f}
	}
	if r, ok := ex.realRange[t.ID]; ok {
		return r
	}
	switch t.Op {
	case OIte:
		a, b := ex.rng(t.A[1]), ex.rng(t.A[2])
		return rint{math.Min(a.lo, b.lo), math.Max(a.hi, b.hi)}
	case ORNeg:
		a := ex.rng(t.A[0])
		return rint{-a.hi, -a.lo}
	case ORAdd:
		a, b := ex.rng(t.A[0]), ex.rng(t.A[1])
		return rint{a.lo + b.lo, a.hi + b.hi}
	case ORSub:
		a, b := ex.rng(t.A[0]), ex.rng(t.A[1])
		return rint{a.lo - b.hi, a.hi - b.lo}
	case ORMul:
		a, b := ex.rng(t.A[0]), ex.rng(t.A[1])
		c := []float64{a.lo * b.lo, a.lo * b.hi, a.hi * b.lo, a.hi * b.hi}
		lo, hi := c[0], c[0]
		for _, v := range c {
			lo, hi = math.Min(lo, v), math.Max(hi, v)
		}
		return rint{lo, hi}
	case ORDiv:
		a, b := ex.rng(t.A[0]), ex.rng(t.A[1])
		if b.lo > 0 || b.hi < 0 {
			c := []float64{a.lo / b.lo, a.lo / b.hi, a.hi / b.lo, a.hi / b.hi}
			lo, hi := c[0], c[0]
			for _, v := range c {
				lo, hi = math.Min(lo, v), math.Max(hi, v)
			}
			return rint{lo, hi}
		}
	}
	return rint{math.Inf(-1), math.Inf(1)}
}

// rounded returns a fresh real standing for the float64 result of the exact term e.
func (ex *Exec) rounded(e *Term) *Term {
	if e.Op == OConst {
		return e
	}
	r := ex.rng(e)
	m := r.mag()
	if math.IsInf(m, 0) || m > 1e300 {
		ex.unsupported("RELAX: no finite bound for an intermediate value")
	}
	ex.symKeys++
	v := ex.st.RVar(fmt.Sprintf("fl.%d", ex.symKeys), false)
	d := ex.st.RConst(m*math.Ldexp(1, -53)*1.0000001 + math.SmallestNonzeroFloat64)
	st := ex.st
	ex.assert(st.And(st.rbin(ORLe, st.rbin(ORSub, e, d), v), st.rbin(ORLe, v, st.rbin(ORAdd, e, d))))
	ex.realRange[v.ID] = rint{r.lo - d.F(), r.hi + d.F()}
	return v
}

// relaxBinop handles Go's float (and float-derived integer) binary operators in RELAX mode.
func (ex *Exec) relaxBinop(op token.Token, x, y *Term) Value {
	st := ex.st
	a, b := ex.toReal(x), ex.toReal(y)
	switch op {
	case token.ADD:
		return ex.rounded(st.rbin(ORAdd, a, b))
	case token.SUB:
		return ex.rounded(st.rbin(ORSub, a, b))
	case token.MUL:
		return ex.rounded(st.rbin(ORMul, a, b))
	case token.QUO:
		if b.Op != OConst {
			e := st.rbin(ORDiv, a, b)
			if e.Op == ORDiv {
				ex.unsupported("RELAX: division by a symbolic value")
			}
			return ex.roundedIte(e)
		}
		if b.F() == 0 {
			ex.unsupported("RELAX: division by zero")
		}
		return ex.rounded(st.rbin(ORDiv, a, b))
	case token.LSS:
		return st.rbin(ORLt, a, b)
	case token.LEQ:
		return st.rbin(ORLe, a, b)
	case token.GTR:
		return st.rbin(ORLt, b, a)
	case token.GEQ:
		return st.rbin(ORLe, b, a)
	case token.EQL:
		if a == b {
			return st.True
		}
		return st.And(st.rbin(ORLe, a, b), st.rbin(ORLe, b, a))
	case token.NEQ:
		if a == b {
			return st.False
		}
		return st.Not(st.And(st.rbin(ORLe, a, b), st.rbin(ORLe, b, a)))
	}
	ex.unsupported("RELAX: operator %s", op)
	return nil
}

// roundedIte rounds every leaf of an ite tree of exact quotients.
func (ex *Exec) roundedIte(e *Term) *Term {
	if e.Op == OIte {
		return ex.st.Ite(e.A[0], ex.roundedIte(e.A[1]), ex.roundedIte(e.A[2]))
	}
	return ex.rounded(e)
}

func (ex *Exec) relaxNeg(x *Term) *Term {
	if x.Op == OConst {
		return ex.st.RConst(-x.F())
	}
	return ex.st.mk(&Term{Op: ORNeg, S: SReal, A: []*Term{x}})
}

func (ex *Exec) relaxAbs(x *Term) *Term {
	st := ex.st
	if x.Op == OConst {
		return st.RConst(math.Abs(x.F()))
	}
	return st.Ite(st.rbin(ORLt, x, st.RConst(0)), ex.relaxNeg(x), x)
}

// relaxToInt: a fresh integer within `within` of x in the given direction(s).
func (ex *Exec) relaxRound(x *Term) *Term {
	st := ex.st
	if x.Op == OConst {
		return st.RConst(math.Round(x.F()))
	}
	if ex.realInt[x.ID] {
		return x
	}
	ex.symKeys++
	k := st.RVar(fmt.Sprintf("round.%d", ex.symKeys), true)
	half := st.RConst(0.5)
	ex.assert(st.And(st.rbin(ORLe, st.rbin(ORSub, x, half), k), st.rbin(ORLe, k, st.rbin(ORAdd, x, half))))
	r := ex.rng(x)
	ex.realRange[k.ID] = rint{math.Floor(r.lo - 0.5), math.Ceil(r.hi + 0.5)}
	ex.realInt[k.ID] = true
	return k
}

func (ex *Exec) relaxTrunc(x *Term) *Term {
	st := ex.st
	if x.Op == OConst {
		return st.RConst(math.Trunc(x.F()))
	}
	if ex.realInt[x.ID] {
		return x
	}
	if x.Op == OIte {
		a, b := ex.relaxTrunc(x.A[1]), ex.relaxTrunc(x.A[2])
		r := st.Ite(x.A[0], a, b)
		ex.realInt[r.ID] = true
		return r
	}
	ex.symKeys++
	k := st.RVar(fmt.Sprintf("trunc.%d", ex.symKeys), true)
	one := st.RConst(1)
	zero := st.RConst(0)
	pos := st.And(st.rbin(ORLe, k, x), st.rbin(ORLt, x, st.rbin(ORAdd, k, one)))
	neg := st.And(st.rbin(ORLt, st.rbin(ORSub, k, one), x), st.rbin(ORLe, x, k))
	ex.assert(st.Ite(st.rbin(ORLe, zero, x), pos, neg))
	r := ex.rng(x)
	ex.realRange[k.ID] = rint{math.Floor(r.lo), math.Ceil(r.hi)}
	ex.realInt[k.ID] = true
	return k
}

// bvTreeToReal converts an ite tree over bit-vector constants (e.g. a loop counter merged by
// if-conversion) into the same tree over real constants.
func (ex *Exec) bvTreeToReal(t *Term) (*Term, bool) {
	switch t.Op {
	case OConst:
		return ex.st.RConst(float64(t.I())), true
	case OIte:
		a, ok1 := ex.bvTreeToReal(t.A[1])
		b, ok2 := ex.bvTreeToReal(t.A[2])
		if ok1 && ok2 {
			return ex.st.Ite(t.A[0], a, b), true
		}
	case OSExt, OZExt:
		return ex.bvTreeToReal(t.A[0])
	}
	return nil, false
}

package main

// One long-lived SMT solver process per worker; incremental via push/pop.

import (
	"bufio"
	"fmt"
	"io"
	"math"
	"os"
	"os/exec"
	"strconv"
	"strings"
	"time"
)

type Result int

const (
	Unsat Result = iota
	Sat
	Unknown
)

func (r Result) String() string { return [...]string{"unsat", "sat", "unknown"}[r] }

type Solver struct {
	name         string
	cmd          *exec.Cmd
	in           io.WriteCloser
	out          *bufio.Reader
	defined      map[int]bool // term ids defined in the current path scope
	deflist      []int
	Queries      struct{ Sat, Unsat, Unknown, Errors int }
	Time         time.Duration
	ModelTime    time.Duration
	OneShots     int
	oneShotModel map[string]uint64
	log          io.Writer
	dead         bool
	lastErr      string
	timeoutMs    int
}

func solverArgv(name string, timeoutMs int) []string {
	switch name {
	case "z3":
		return []string{"z3", "-in", fmt.Sprintf("-t:%d", timeoutMs)}
	case "z3-new":
		return []string{"z3-new", "-in", fmt.Sprintf("-t:%d", timeoutMs)}
	case "cvc5":
		return []string{"cvc5", "--incremental", "--produce-models", "--lang=smt2", fmt.Sprintf("--tlimit-per=%d", timeoutMs), "--fp-exp"}
	}
	panic("unknown solver " + name)
}

func NewSolver(name string, timeoutMs int, log io.Writer) (*Solver, error) {
	argv := solverArgv(name, timeoutMs)
	cmd := exec.Command(argv[0], argv[1:]...)
	in, err := cmd.StdinPipe()
	if err != nil {
		return nil, err
	}
	outp, err := cmd.StdoutPipe()
	if err != nil {
		return nil, err
	}
	cmd.Stderr = cmd.Stdout
	if err := cmd.Start(); err != nil {
		return nil, err
	}
	s := &Solver{name: name, cmd: cmd, in: in, out: bufio.NewReaderSize(outp, 1<<16), defined: map[int]bool{}, log: log, timeoutMs: timeoutMs}
	s.send("(set-option :produce-models true)")
	if name == "cvc5" {
		s.send("(set-logic ALL)")
	}
	return s, nil
}

func (s *Solver) send(line string) {
	if s.log != nil {
		fmt.Fprintln(s.log, line)
	}
	io.WriteString(s.in, line)
	io.WriteString(s.in, "\n")
}

func (s *Solver) Close() {
	if s.cmd != nil && !s.dead {
		s.send("(exit)")
		s.in.Close()
		s.cmd.Wait()
		s.dead = true
	}
}

func (s *Solver) readLine() string {
	line, err := s.out.ReadString('\n')
	if err != nil {
		s.dead = true
		return "(error \"solver died\")"
	}
	line = strings.TrimSpace(line)
	if s.log != nil {
		fmt.Fprintln(s.log, "; <- "+line)
	}
	return line
}

// readSexp reads a complete balanced s-expression (possibly over several lines).
func (s *Solver) readSexp() string {
	var sb strings.Builder
	depth := 0
	started := false
	for {
		line := s.readLine()
		sb.WriteString(line)
		sb.WriteString(" ")
		for _, c := range line {
			if c == '(' {
				depth++
				started = true
			} else if c == ')' {
				depth--
			}
		}
		if (started && depth <= 0) || (!started && line != "") || s.dead {
			break
		}
	}
	return sb.String()
}

func (s *Solver) Push() {
}

func (s *Solver) Pop() {
	s.send("(reset)")
	s.send("(set-option :produce-models true)")
	if s.name == "cvc5" {
		s.send("(set-logic ALL)")
	}
	for _, id := range s.deflist {
		delete(s.defined, id)
	}
	s.deflist = s.deflist[:0]
}

// define makes sure t (and its sub-terms) are defined in the current scope.
func (s *Solver) define(t *Term) {
	if t.Op == OConst || s.defined[t.ID] {
		return
	}
	// iterative post-order to avoid deep recursion
	type fr struct {
		t *Term
		i int
	}
	stack := []fr{{t, 0}}
	for len(stack) > 0 {
		f := &stack[len(stack)-1]
		if f.t.Op == OConst || s.defined[f.t.ID] {
			stack = stack[:len(stack)-1]
			continue
		}
		if f.i < len(f.t.A) {
			a := f.t.A[f.i]
			f.i++
			if a.Op != OConst && !s.defined[a.ID] {
				stack = append(stack, fr{a, 0})
			}
			continue
		}
		tt := f.t
		if tt.Op == OVar {
			sortName := tt.S.SMT()
			if tt.S.K == KReal && tt.P == 1 {
				sortName = "Int"
			}
			s.send(fmt.Sprintf("(declare-const |%s| %s)", tt.N, sortName))
		} else {
			s.send(fmt.Sprintf("(define-fun t%d () %s %s)", tt.ID, tt.S.SMT(), tt.body()))
		}
		s.defined[tt.ID] = true
		s.deflist = append(s.deflist, tt.ID)
		stack = stack[:len(stack)-1]
	}
}

func (s *Solver) Assert(t *Term) {
	if t.Op == OConst && t.C != 0 {
		return
	}
	s.define(t)
	s.send("(assert " + t.ref() + ")")
}

// Check checks satisfiability of the asserted path condition plus the given extra literals.
func (s *Solver) Check(extra ...*Term) Result {
	s.oneShotModel = nil
	for _, e := range extra {
		if e.Op == OConst && e.C == 0 {
			return Unsat
		}
	}
	var lits []string
	for _, e := range extra {
		if e.Op == OConst {
			continue
		}
		s.define(e)
		if e.Op == ONot && false {
			lits = append(lits, "(not "+e.A[0].ref()+")")
		} else {
			lits = append(lits, e.ref())
		}
	}
	t0 := time.Now()
	if len(lits) == 0 {
		s.send("(check-sat)")
	} else {
		s.send("(check-sat-assuming (" + strings.Join(lits, " ") + "))")
	}
	s.send("(echo \"vp-done\")")
	res := Unknown
	got := false
	for {
		line := s.readLine()
		if strings.Contains(line, "vp-done") || s.dead {
			break
		}
		switch {
		case line == "sat":
			res, got = Sat, true
		case line == "unsat":
			res, got = Unsat, true
		case line == "unknown" || strings.HasPrefix(line, "timeout"):
			res, got = Unknown, true
		case strings.HasPrefix(line, "(error"):
			s.Queries.Errors++
			s.lastErr = line
		}
	}
	if !got {
		res = Unknown
	}
	s.Time += time.Since(t0)
	switch res {
	case Sat:
		s.Queries.Sat++
	case Unsat:
		s.Queries.Unsat++
	default:
		s.Queries.Unknown++
	}
	if s.Queries.Errors > 0 && res != Unknown {
		// an (error line was seen at some point in this process: everything after is inconclusive
		res = Unknown
	}
	return res
}

// OneShot decides pc /\ extra with a fresh, non-incremental solver run (full preprocessing).
// Used when the incremental query came back unknown.  On sat the model is kept for Model/Value.
func (s *Solver) OneShot(pc []*Term, extra []*Term, vars []*Term, timeoutS int) Result {
	var sb strings.Builder
	sb.WriteString("(set-option :produce-models true)\n")
	hasFP := false
	seen := map[int]bool{}
	var order []*Term
	var visit func(t *Term)
	visit = func(t *Term) {
		if t.Op == OConst || seen[t.ID] {
			if t.S.K == KFP {
				hasFP = true
			}
			return
		}
		seen[t.ID] = true
		if t.S.K == KFP || t.S.K == KReal {
			hasFP = true
		}
		for _, a := range t.A {
			visit(a)
		}
		order = append(order, t)
	}
	all := append(append([]*Term{}, pc...), extra...)
	for _, t := range all {
		visit(t)
	}
	for _, v := range vars {
		visit(v)
	}
	if !hasFP {
		sb.WriteString("(set-logic QF_BV)\n")
	}
	for _, t := range order {
		if t.Op == OVar {
			sortName := t.S.SMT()
			if t.S.K == KReal && t.P == 1 {
				sortName = "Int"
			}
			fmt.Fprintf(&sb, "(declare-const |%s| %s)\n", t.N, sortName)
		} else {
			fmt.Fprintf(&sb, "(define-fun t%d () %s %s)\n", t.ID, t.S.SMT(), t.body())
		}
	}
	for _, t := range all {
		if t.Op == OConst {
			if t.C == 0 {
				return Unsat
			}
			continue
		}
		fmt.Fprintf(&sb, "(assert %s)\n", t.ref())
	}
	sb.WriteString("(check-sat)\n")
	var names []string
	for _, v := range vars {
		names = append(names, v.ref())
	}
	if len(names) > 0 {
		fmt.Fprintf(&sb, "(get-value (%s))\n", strings.Join(names, " "))
	}
	f, err := os.CreateTemp("", "vp-oneshot-*.smt2")
	if err != nil {
		return Unknown
	}
	if os.Getenv("VP_KEEPONESHOT") == "" {
		defer os.Remove(f.Name())
	}
	f.WriteString(sb.String())
	f.Close()
	t0 := time.Now()
	var txt, first string
	if !hasFP {
		// pure bit-vector queries: cvc5's bit-blaster decides the sum/extension equalities of the
		// charstring templates about ten times faster than z3; z3 stays the second opinion
		out, _ := exec.Command("cvc5", "--produce-models", fmt.Sprintf("--tlimit=%d", timeoutS*1000/3), f.Name()).Output()
		txt = string(out)
		first = strings.TrimSpace(strings.SplitN(txt, "\n", 2)[0])
	}
	if first != "sat" && first != "unsat" {
		out, _ := exec.Command("z3-new", fmt.Sprintf("-T:%d", timeoutS), f.Name()).CombinedOutput()
		txt = string(out)
		first = strings.TrimSpace(strings.SplitN(txt, "\n", 2)[0])
	}
	if !hasFP && first != "sat" && first != "unsat" {
		// third attempt for multiply/divide kernels: cvc5's integer encoding of bit-vectors
		// (mod 2^k semantics kept), which decides some constant multiplications in well under a
		// second where both bit-blasters time out
		out, _ := exec.Command("cvc5", "--produce-models", "--solve-bv-as-int=sum", "--tlimit=20000", f.Name()).Output()
		txt = string(out)
		first = strings.TrimSpace(strings.SplitN(txt, "\n", 2)[0])
	}
	if hasFP && first != "sat" && first != "unsat" {
		// second opinion for floating-point queries (symfpu bit-blasting decides some divisions
		// by constants that z3 does not)
		out, _ := exec.Command("cvc5", "--produce-models", fmt.Sprintf("--tlimit=%d", timeoutS*1000*2/3), f.Name()).Output()
		txt = string(out)
		first = strings.TrimSpace(strings.SplitN(txt, "\n", 2)[0])
	}
	// an (error line ahead of the verdict makes the verdict the second line: not accepted
	s.Time += time.Since(t0)
	s.OneShots++
	switch first {
	case "unsat":
		s.Queries.Unsat++
		s.Queries.Unknown--
		return Unsat
	case "sat":
		s.Queries.Sat++
		s.Queries.Unknown--
		m := map[string]uint64{}
		if i := strings.Index(txt, "\n"); i >= 0 {
			parseModel(txt[i+1:], m)
		}
		s.oneShotModel = m
		return Sat
	}
	return Unknown
}

// Model returns the values of the given variables after a Sat answer.
func (s *Solver) Model(vars []*Term) map[string]uint64 {
	if s.oneShotModel != nil {
		m := map[string]uint64{}
		for _, v := range vars {
			if val, ok := s.oneShotModel[v.N]; ok {
				m[v.N] = val
			}
		}
		return m
	}
	m := map[string]uint64{}
	if len(vars) == 0 {
		return m
	}
	var names []string
	for _, v := range vars {
		if s.defined[v.ID] {
			names = append(names, "|"+v.N+"|")
		}
	}
	if len(names) == 0 {
		return m
	}
	t0 := time.Now()
	s.send("(get-value (" + strings.Join(names, " ") + "))")
	txt := s.readSexp()
	s.ModelTime += time.Since(t0)
	parseModel(txt, m)
	return m
}

// Value returns the value of an arbitrary term after a Sat answer.
func (s *Solver) Value(t *Term) (uint64, bool) {
	if t.Op == OConst {
		return t.C, true
	}
	if s.oneShotModel != nil {
		return evalTerm(t, s.oneShotModel, map[int]uint64{})
	}
	s.define(t)
	t0 := time.Now()
	s.send("(get-value (" + t.ref() + "))")
	txt := s.readSexp()
	s.ModelTime += time.Since(t0)
	m := map[string]uint64{}
	parseModel(txt, m)
	for _, v := range m {
		return v, true
	}
	return 0, false
}

// parseModel parses "((|a| #x01) (|b| true) (t5 (fp #b0 #b.. #b..)))".
func parseModel(txt string, m map[string]uint64) {
	toks := tokenize(txt)
	i := 0
	var parseVal func() (uint64, bool)
	parseVal = func() (uint64, bool) {
		if i >= len(toks) {
			return 0, false
		}
		t := toks[i]
		switch {
		case t == "true":
			i++
			return 1, true
		case t == "false":
			i++
			return 0, true
		case strings.HasPrefix(t, "#x"):
			i++
			v, _ := strconv.ParseUint(t[2:], 16, 64)
			return v, true
		case strings.HasPrefix(t, "#b"):
			i++
			v, _ := strconv.ParseUint(t[2:], 2, 64)
			return v, true
		case t != "" && (t[0] >= '0' && t[0] <= '9'):
			i++
			t = strings.TrimSuffix(t, "?")
			f, err := strconv.ParseFloat(t, 64)
			if err != nil {
				return 0, false
			}
			return math.Float64bits(f), true
		case t == "(":
			// (fp s e m) | (_ bvN w) | (_ +oo 11 53) | (_ NaN 11 53) ...
			i++
			if i < len(toks) && (toks[i] == "-" || toks[i] == "/") {
				op := toks[i]
				i++
				a, ok1 := parseVal()
				var b uint64
				ok2 := false
				if i < len(toks) && toks[i] != ")" {
					b, ok2 = parseVal()
				}
				if i < len(toks) && toks[i] == ")" {
					i++
				}
				if !ok1 {
					return 0, false
				}
				fa := math.Float64frombits(a)
				switch {
				case op == "-" && !ok2:
					return math.Float64bits(-fa), true
				case op == "-":
					return math.Float64bits(fa - math.Float64frombits(b)), true
				case ok2:
					return math.Float64bits(fa / math.Float64frombits(b)), true
				}
				return 0, false
			}
			if i < len(toks) && toks[i] == "fp" {
				i++
				a, _ := parseVal()
				b, _ := parseVal()
				c, _ := parseVal()
				if i < len(toks) && toks[i] == ")" {
					i++
				}
				return a<<63 | b<<52 | c, true
			}
			if i < len(toks) && toks[i] == "_" {
				i++
				kind := toks[i]
				i++
				for i < len(toks) && toks[i] != ")" {
					i++
				}
				i++
				switch {
				case strings.HasPrefix(kind, "bv"):
					v, _ := strconv.ParseUint(kind[2:], 10, 64)
					return v, true
				case kind == "+oo":
					return 0x7ff0000000000000, true
				case kind == "-oo":
					return 0xfff0000000000000, true
				case kind == "NaN":
					return 0x7ff8000000000000, true
				case kind == "+zero":
					return 0, true
				case kind == "-zero":
					return 1 << 63, true
				}
				return 0, false
			}
			// unknown compound: skip
			depth := 1
			for i < len(toks) && depth > 0 {
				if toks[i] == "(" {
					depth++
				} else if toks[i] == ")" {
					depth--
				}
				i++
			}
			return 0, false
		}
		i++
		return 0, false
	}
	// expect ( ( name val ) ... )
	if i < len(toks) && toks[i] == "(" {
		i++
	}
	for i < len(toks) && toks[i] == "(" {
		i++
		if i >= len(toks) {
			break
		}
		name := toks[i]
		i++
		name = strings.Trim(name, "|")
		v, ok := parseVal()
		if ok {
			m[name] = v
		}
		for i < len(toks) && toks[i] != ")" {
			i++
		}
		i++
	}
}

func tokenize(s string) []string {
	var toks []string
	i := 0
	for i < len(s) {
		c := s[i]
		switch {
		case c == ' ' || c == '\n' || c == '\t' || c == '\r':
			i++
		case c == '(' || c == ')':
			toks = append(toks, string(c))
			i++
		case c == '|':
			j := i + 1
			for j < len(s) && s[j] != '|' {
				j++
			}
			toks = append(toks, s[i:j+1])
			i = j + 1
		default:
			j := i
			for j < len(s) && !strings.ContainsRune(" \n\t\r()", rune(s[j])) {
				j++
			}
			toks = append(toks, s[i:j])
			i = j
		}
	}
	return toks
}

package main

// World: shared state of one exploration (work queue, violations, notes, configuration).

import (
	"fmt"
	"go/types"
	"io"
	"os"
	"regexp"
	"runtime/debug"
	"sort"
	"strings"
	"sync"
	"time"

	"golang.org/x/tools/go/ssa"
)

type workItem struct {
	harness string
	prefix  []int64
}

type KnownFinding struct {
	ID       string           `json:"id"`
	Property string           `json:"property"`
	Harness  string           `json:"harness"`
	Site     string           `json:"site"`
	Choices  map[string]int64 `json:"choices,omitempty"`
	Region   string           `json:"region"`
	What     string           `json:"what"`
}

type coverWitness struct {
	Model   map[string]uint64
	Choices map[string]int64
}

type World struct {
	prog       *ssa.Program
	modulePkgs map[*ssa.Package]bool
	opaque     map[string]bool // package paths never interpreted
	errStringT *types.Pointer
	regexps    sync.Map

	mu      sync.Mutex
	cond    *sync.Cond
	queue   []workItem
	active  int
	stopped bool

	violations []*Violation
	vioCount   map[string]int
	notes      map[string]int
	known      []KnownFinding
	covers     map[string]*coverWitness
	asserts    map[string]bool
	engineErrs []string
	pathsDone  int
	maxPaths   int
	samples    []string
	deadline   time.Time
	timedOut   bool

	solverName     string
	timeoutMs      int
	smtLog         bool
	panicsOK       map[string]bool
	depthViolation bool
	hangViolation  bool
}

func (w *World) push(h string, p []int64) {
	w.mu.Lock()
	w.queue = append(w.queue, workItem{h, p})
	w.mu.Unlock()
	w.cond.Signal()
}

// pop returns the next work item (LIFO); ok=false when exploration is complete.
func (w *World) pop() (workItem, bool) {
	w.mu.Lock()
	defer w.mu.Unlock()
	for {
		if w.stopped {
			return workItem{}, false
		}
		if len(w.queue) > 0 {
			it := w.queue[len(w.queue)-1]
			w.queue = w.queue[:len(w.queue)-1]
			w.active++
			return it, true
		}
		if w.active == 0 {
			w.cond.Broadcast()
			return workItem{}, false
		}
		w.cond.Wait()
	}
}

func (w *World) done() {
	w.mu.Lock()
	w.active--
	w.pathsDone++
	if w.maxPaths > 0 && w.pathsDone >= w.maxPaths && !w.stopped {
		w.stopped = true
		w.timedOut = true
	}
	if !w.deadline.IsZero() && time.Now().After(w.deadline) && !w.stopped {
		w.stopped = true
		w.timedOut = true
	}
	if w.active == 0 && len(w.queue) == 0 || w.stopped {
		w.cond.Broadcast()
	}
	w.mu.Unlock()
}

func (w *World) note(s string) {
	w.mu.Lock()
	w.notes[s]++
	w.mu.Unlock()
}

func (w *World) addViolation(v *Violation) {
	w.mu.Lock()
	defer w.mu.Unlock()
	key := v.Harness + "|" + v.Site + "|" + v.Known
	w.vioCount[key]++
	if w.vioCount[key] > 3 {
		return
	}
	w.violations = append(w.violations, v)
}

func (w *World) wantViolation(key string) bool {
	w.mu.Lock()
	defer w.mu.Unlock()
	return w.vioCount[key] < 3
}

func (w *World) knownFor(harness, site string) []KnownFinding {
	var r []KnownFinding
	for _, k := range w.known {
		if k.Harness == harness && k.Site == site {
			r = append(r, k)
		}
	}
	return r
}

func (w *World) needCover(h, label string) bool {
	w.mu.Lock()
	defer w.mu.Unlock()
	_, ok := w.covers[h+"|"+label]
	return !ok
}

func (w *World) addCover(h, label string, m map[string]uint64, ch map[string]int64) {
	w.mu.Lock()
	defer w.mu.Unlock()
	if _, ok := w.covers[h+"|"+label]; !ok {
		w.covers[h+"|"+label] = &coverWitness{m, ch}
	}
}

func (w *World) assertSeen(h, label string) {
	w.mu.Lock()
	w.asserts[h+"|"+label] = true
	w.mu.Unlock()
}

func (w *World) panicIsViolation(h string) bool { return !w.panicsOK[h] }

func (w *World) initAllowed(p *ssa.Package) bool {
	if w.modulePkgs[p] {
		return true
	}
	path := p.Pkg.Path()
	switch path {
	case "io", "unicode/utf8", "strconv", "math", "math/bits", "bytes", "strings", "sort", "slices", "maps",
		"golang.org/x/exp/maps", "golang.org/x/exp/slices", "unicode", "io/fs", "bufio", "seehuhn.de/go/geom/matrix", "seehuhn.de/go/geom/rect":
		return true
	}
	return false
}

func (w *World) opaquePkg(fn *ssa.Function) bool {
	if fn.Pkg == nil {
		return false
	}
	return w.opaque[fn.Pkg.Pkg.Path()]
}

func (w *World) globalWrite(ex *Exec, l *Loc) {
	ex.globalWrites++
	if len(ex.locks) == 0 {
		ex.unlockedGlobalWrites++
	}
}

func (w *World) globalWriteMap(ex *Exec, m *MapObj) {
	ex.globalWrites++
	if len(ex.locks) == 0 {
		ex.unlockedGlobalWrites++
	}
}

// ---------------- worker ----------------

func (w *World) newExec() (*Exec, error) {
	var logw io.Writer
	if d := os.Getenv("VP_SMTLOG"); d != "" {
		f, _ := os.CreateTemp(d, "smt-*.smt2")
		logw = f
	}
	sol, err := NewSolver(w.solverName, w.timeoutMs, logw)
	if err != nil {
		return nil, err
	}
	ex := &Exec{
		w: w, prog: w.prog, st: NewStore(), sol: sol,
		globals: map[*ssa.Global]*Loc{}, inited: map[*ssa.Package]bool{},
		funcs: map[*ssa.Function]int{}, intr: map[*ssa.Function]intrinsicFn{}, regexps: map[*Loc]*regexp.Regexp{}, lineScanners: map[*Loc]*lineScanner{},
	}
	ex.stats.PathKinds = map[string]int{}
	ex.resetPath(nil)
	return ex, nil
}

func (ex *Exec) resetPath(prefix []int64) {
	ex.prefix = prefix
	ex.pos = 0
	ex.decs = ex.decs[:0]
	ex.pcond = ex.pcond[:0]
	ex.inputs = ex.inputs[:0]
	ex.choices = map[string]int64{}
	ex.nameCount = map[string]int{}
	ex.steps = 0
	ex.stepLimit = 3_000_000
	ex.depth = 0
	ex.depthLimit = 2000
	ex.unwind = map[ssa.Instruction]int{}
	ex.unwindLim = 64
	ex.allocLimit = 0
	ex.covers = map[string]bool{}
	ex.observed = nil
	ex.frame = nil
	ex.mapOrder = false
	ex.locks = map[*Loc]bool{}
	ex.rlocks = map[*Loc]int{}
	ex.symKeys = 0
	ex.globalWrites = 0
	ex.unlockedGlobalWrites = 0
	ex.nondet = 0
	ex.guard = nil
	ex.spec = 0
	ex.rngCache = map[int]rng{}
	ex.decDigits = map[int]decDigit{}
	ex.realRange = map[int]rint{}
	ex.realInt = map[int]bool{}
	ex.emitted = nil
	ex.unlockedReads = map[interface{}]bool{}
	ex.writtenTagged = map[interface{}]bool{}
	ex.varRng = map[int]rng{}
	ex.noMerge = os.Getenv("VP_NOMERGE") != ""
}

// initModule initialises all module packages (concretely) for this worker.
func (ex *Exec) initModule(order []*ssa.Package) {
	for _, p := range ex.prog.AllPackages() {
		if !ex.w.modulePkgs[p] && ex.w.initAllowed(p) && p.Pkg.Path() != "unicode" {
			ex.initPackage(p)
		}
	}
	for _, p := range order {
		ex.initPackage(p)
	}
	ex.trail = ex.trail[:0]
	// tag everything reachable from package-level variables
	seen := map[interface{}]bool{}
	for g, l := range ex.globals {
		if g.Pkg != nil && ex.w.modulePkgs[g.Pkg] {
			ex.tagLoc(l, seen)
		}
	}
}

func (ex *Exec) tagLoc(l *Loc, seen map[interface{}]bool) {
	if l == nil || seen[l] {
		return
	}
	seen[l] = true
	l.tag = 1
	if l.agg {
		for _, k := range l.kids {
			ex.tagLoc(k, seen)
		}
		return
	}
	ex.tagValue(l.v, seen)
}

func (ex *Exec) tagValue(v Value, seen map[interface{}]bool) {
	switch x := v.(type) {
	case *Loc:
		ex.tagLoc(x, seen)
	case SliceV:
		if x.arr != nil {
			ex.tagLoc(x.arr, seen)
		}
	case IfaceV:
		ex.tagValue(x.v, seen)
	case *MapObj:
		if x == nil || seen[x] {
			return
		}
		seen[x] = true
		x.tag = 1
		for _, e := range x.m {
			ex.tagValue(e.key, seen)
			ex.tagValue(e.val, seen)
		}
	case StructV:
		for _, f := range x.f {
			ex.tagValue(f, seen)
		}
	case ArrayV:
		for _, f := range x.e {
			ex.tagValue(f, seen)
		}
	case *FuncV:
		if x != nil {
			for _, e := range x.env {
				ex.tagValue(e, seen)
			}
		}
	}
}

// runPath executes one path of the harness.
func (ex *Exec) runPath(fn *ssa.Function, it workItem) {
	ex.pathsSinceRestart++
	if ex.sol.dead || ex.pathsSinceRestart > 5000 {
		ex.restartSolver()
	}
	for attempt := 0; ; attempt++ {
		ex.runPathOnce(fn, it)
		if !ex.sol.dead || attempt >= 2 {
			if ex.sol.dead {
				ex.w.note("solver process died repeatedly; path result discarded")
				ex.w.mu.Lock()
				ex.w.engineErrs = append(ex.w.engineErrs, "solver process died repeatedly")
				ex.w.mu.Unlock()
			}
			return
		}
		ex.w.note("solver process died; restarted and path re-run")
		ex.stats.Paths--
		ex.restartSolver()
	}
}

func (ex *Exec) restartSolver() {
	old := ex.sol
	if !old.dead {
		old.Close()
	} else if old.cmd != nil && old.cmd.Process != nil {
		old.cmd.Process.Kill()
		old.cmd.Wait()
	}
	ns, err := NewSolver(ex.w.solverName, ex.w.timeoutMs, old.log)
	if err != nil {
		panic(err)
	}
	ns.Queries = old.Queries
	ns.Time = old.Time
	ns.ModelTime = old.ModelTime
	ns.lastErr = old.lastErr
	ex.sol = ns
	ex.pathsSinceRestart = 0
}

func (ex *Exec) runPathOnce(fn *ssa.Function, it workItem) {
	ex.harness = it.harness
	ex.resetPath(it.prefix)
	ex.sol.Push()
	tPath := time.Now()
	ex.pathDeadline = tPath.Add(90 * time.Second)
	if !ex.w.deadline.IsZero() && ex.w.deadline.Add(20*time.Second).Before(ex.pathDeadline) {
		ex.pathDeadline = ex.w.deadline.Add(20 * time.Second)
	}
	solT0 := ex.sol.Time
	mt0 := ex.sol.ModelTime
	q0 := ex.sol.Queries.Sat + ex.sol.Queries.Unsat
	kind := "done"
	msg := ""
	func() {
		defer func() {
			if r := recover(); r != nil {
				if pe, ok := r.(PathEnd); ok {
					kind, msg = pe.kind, pe.msg
					return
				}
				kind = "engine-error"
				msg = fmt.Sprintf("%v\n%s", r, debug.Stack())
			}
		}()
		ex.call(fn, nil, nil)
	}()
	if el := time.Since(tPath); el > 3*time.Second && os.Getenv("VP_SLOWPATH") != "" {
		fmt.Fprintf(os.Stderr, "SLOWPATH %.1fs steps=%d decs=%d kind=%s choices=%v solverdelta=%v q=%d modeltime=%v\n", el.Seconds(), ex.steps, len(ex.decs), kind, ex.choices, ex.sol.Time-solT0, ex.sol.Queries.Sat+ex.sol.Queries.Unsat-q0, ex.sol.ModelTime-mt0)
	}
	ex.finishPath(kind, msg)
	ex.undoAll()
	for _, l := range ex.lazies {
		l.forced = false
		l.val = IfaceV{}
	}
	ex.lazies = ex.lazies[:0]
	ex.sol.Pop()
}

func (ex *Exec) finishPath(kind, msg string) {
	ex.stats.Paths++
	ex.stats.PathKinds[kind]++
	w := ex.w
	switch kind {
	case "engine-error":
		w.mu.Lock()
		if len(w.engineErrs) < 5 {
			w.engineErrs = append(w.engineErrs, msg)
		}
		w.mu.Unlock()
	case "depth":
		if w.depthViolation {
			if ex.check() == Sat {
				w.addViolation(&Violation{Harness: ex.harness, Site: "call-depth", Kind: "depth", Msg: msg, Model: ex.sol.Model(ex.inputs), Choices: copyChoices(ex.choices)})
			}
		} else {
			w.note(kind + ": " + msg)
		}
	case "unsupported", "unwind", "timeout":
		w.note(kind + ": " + msg)
	case "steplimit":
		if w.hangIsViolation(ex.harness) {
			// candidate non-termination: report with the current model
			if ex.check() == Sat {
				w.addViolation(&Violation{Harness: ex.harness, Site: "steplimit", Kind: "hang", Msg: msg, Model: ex.sol.Model(ex.inputs), Choices: copyChoices(ex.choices)})
			}
		} else {
			w.note(kind + ": " + msg)
		}
	}
	if kind == "done" || kind == "panic" || kind == "assert-fail" {
		w.mu.Lock()
		if len(w.samples) < 6 {
			w.samples = append(w.samples, ex.describePath(kind, msg))
		}
		w.mu.Unlock()
	}
}

func (w *World) hangIsViolation(h string) bool { return w.hangViolation }

func (ex *Exec) describePath(kind, msg string) string {
	var sb strings.Builder
	fmt.Fprintf(&sb, "%s path, %d decisions, %d constraints", kind, len(ex.decs), len(ex.pcond))
	if len(ex.choices) > 0 {
		ks := make([]string, 0, len(ex.choices))
		for k := range ex.choices {
			ks = append(ks, k)
		}
		sort.Strings(ks)
		sb.WriteString("; choices:")
		for _, k := range ks {
			fmt.Fprintf(&sb, " %s=%d", k, ex.choices[k])
		}
	}
	if msg != "" {
		sb.WriteString("; " + msg)
	}
	n := len(ex.pcond)
	if n > 3 {
		n = 3
	}
	for i := 0; i < n; i++ {
		sb.WriteString("; pc: " + termString(ex.pcond[len(ex.pcond)-1-i], 3))
	}
	return sb.String()
}

// termString renders a term to limited depth for evidence samples.
func termString(t *Term, depth int) string {
	switch t.Op {
	case OConst, OVar:
		return t.ref()
	}
	if depth == 0 {
		return "…"
	}
	name := opNames[t.Op]
	if name == "" {
		name = fmt.Sprintf("op%d", t.Op)
	}
	parts := []string{name}
	for _, a := range t.A {
		parts = append(parts, termString(a, depth-1))
	}
	return "(" + strings.Join(parts, " ") + ")"
}
